#!/venv/bin/python
"""Print the markdown table of seeded changes (DESIGN.md R6) from seeded/*/meta.json."""
import glob, json, os, re
root = os.path.join(os.path.dirname(os.path.abspath(__file__)), "..", "seeded")
print("| change | breaks | site and trigger (from the seeder's notes) | tests with change | checks run | detected by (violation kinds) |")
print("|---|---|---|---|---|---|")
for d in sorted(glob.glob(os.path.join(root, "*"))):
    mp = os.path.join(d, "meta.json")
    if not os.path.exists(mp):
        continue
    m = json.load(open(mp))
    notes = m.get("needs_to_manifest", "")
    title = ""
    for line in notes.splitlines():
        line = line.strip()
        if line.startswith("#"):
            title = re.sub(r"^#+\s*", "", line)
            title = re.sub(r"^C\d\d seed [AB]\s*[-:]\s*", "", title, flags=re.I)
            title = re.sub(r"^[Ss]eed [AB]\s*[-:]?\s*", "", title)
            break
    files = sorted(set(re.findall(r"tealer/[\w/]+\.py", open(os.path.join(d, "patch.diff")).read()))) if os.path.exists(os.path.join(d, "patch.diff")) else []
    res = m.get("check_results", {})
    det = []
    for c in sorted(res):
        r = res[c]
        if r["exit"] == 1:
            det.append(c + " (" + ", ".join(k.split(".", 1)[1] if "." in k else k for k in r["violation_kinds"][:3]) + ")")
    missed = [c for c in sorted(res) if res[c]["exit"] != 1]
    tests = (m.get("confirmed", {}).get("test_suite_with_change") or "").split(" in ")[0]
    print(f"| {os.path.basename(d)} | {m.get('breaks_property')} | {title} [{', '.join(f.replace('tealer/', '') for f in files)}] | {tests} | "
          f"{', '.join(sorted(res))} | {'; '.join(det) if det else '**none**'}{' — silent: ' + ', '.join(missed) if missed and det else ''} |")
