#!/bin/bash
# tools/confirm_seed.sh <worktree> <seed dir> : confirm a seeded change in its scratch worktree
# (patch applies, demo fails with it and passes without it, the repository's test suite passes with it).
WT="$1"; SD="$2"; OUT="$SD/confirm.log"
cd "$WT" || exit 2
git checkout -q -- tealer
{
echo "== clean demo"; /venv/bin/python "$SD/demo.py" >/dev/null 2>&1; echo "demo_clean_exit=$?"
git apply "$SD/patch.diff" || { echo "apply_failed=1"; exit 2; }
echo "== patched demo"; /venv/bin/python "$SD/demo.py" >/dev/null 2>&1; echo "demo_patched_exit=$?"
echo "== test suite with the change"
/venv/bin/python -m pytest -q -p no:cacheprovider -n 4 --timeout=900 tests 2>&1 | tail -3
git checkout -q -- tealer
echo "== done"
} > "$OUT" 2>&1
