#!/venv/bin/python
"""tools/eval_seed.py <name> <seed dir> <property> <check ids...>
Store a confirmed seeded change under /verif/seeded/<name>/ and run the given quick checks
against it: apply to /repo, run, undo straight afterwards."""
import json, os, re, shutil, subprocess, sys, time

name, sd, prop = sys.argv[1], sys.argv[2], sys.argv[3]
checks = sys.argv[4:]
dst = f"/verif/seeded/{name}"
os.makedirs(dst, exist_ok=True)
for f in ("patch.diff", "demo.py", "notes.md", "confirm.log"):
    if os.path.exists(os.path.join(sd, f)):
        shutil.copy(os.path.join(sd, f), os.path.join(dst, f))
# EV_WT=<scratch worktree>: apply the change there and point the checks (and their subprocesses) at it with
# VERIF_REPO / PYTHONPATH, so that /repo is never touched (used while background runs read /repo)
TARGET = os.environ.get("EV_WT") or "/repo"
if subprocess.run(["git", "-C", TARGET, "status", "--porcelain", "--untracked-files=no"], capture_output=True, text=True).stdout.strip():
    sys.exit(TARGET + " not clean")
r = subprocess.run(["git", "-C", TARGET, "apply", os.path.join(dst, "patch.diff")])
if r.returncode != 0:
    sys.exit("patch does not apply to " + TARGET)
EXTRA = {"VERIF_REPO": TARGET, "PYTHONPATH": TARGET} if TARGET != "/repo" else {}
if os.environ.get("EV_STOP_EARLY"):
    EXTRA["VERIF_STOP_AT_FIRST_VIOLATION"] = "1"  # stop a check once 20 unattributed violations are in: the verdict is known
results = {}
try:
    for c in checks:
        t = time.time()
        pr = subprocess.run(["/verif/check", c, "--tier", "quick"], capture_output=True, text=True, env=dict(os.environ, VERIF_EVIDENCE_DIR="/tmp/mutant-evidence", **EXTRA))
        kinds = re.findall(r"kind=(\S+)", pr.stdout)
        results[c] = {"exit": pr.returncode, "violation_kinds": sorted(set(kinds)), "wall_s": round(time.time() - t, 1),
                      "harness_error": "HARNESS-ERROR" in pr.stdout}
        print(name, c, results[c], flush=True)
finally:
    subprocess.run(["git", "-C", TARGET, "checkout", "--", "."])
    subprocess.run(["git", "-C", TARGET, "clean", "-fdq", "tealer"])
meta_path = os.path.join(dst, "meta.json")
meta = json.load(open(meta_path)) if os.path.exists(meta_path) else {}
conf = open(os.path.join(dst, "confirm.log")).read() if os.path.exists(os.path.join(dst, "confirm.log")) else ""
meta.update({
    "breaks_property": prop,
    "origin": "independent sub-agent given only the property text and a scratch worktree",
    "needs_to_manifest": open(os.path.join(dst, "notes.md")).read()[:1500] if os.path.exists(os.path.join(dst, "notes.md")) else "",
    "confirmed": {
        "demo_exit_on_clean_tree": int(re.search(r"demo_clean_exit=(\d+)", conf).group(1)) if "demo_clean_exit" in conf else None,
        "demo_exit_with_change": int(re.search(r"demo_patched_exit=(\d+)", conf).group(1)) if "demo_patched_exit" in conf else None,
        "test_suite_with_change": (re.search(r"(\d+ passed[^\n]*)", conf) or re.search(r"(\d+ failed[^\n]*)", conf) or [None, None])[1] if conf else None,
        "how": "tools/confirm_seed.sh in a scratch worktree: demo on clean tree, git apply, demo, full pytest suite, git checkout",
    },
})
meta.setdefault("check_results", {}).update(results)
meta["evaluated_on"] = "change applied to /repo, quick checks run, /repo restored" if TARGET == "/repo" else (
    "change applied to the scratch worktree " + TARGET + " (a worktree of /repo's HEAD); quick checks run with VERIF_REPO/PYTHONPATH pointing at it")
meta["detected_by"] = sorted(c for c, v in meta["check_results"].items() if v["exit"] == 1)
json.dump(meta, open(meta_path, "w"), indent=1)
