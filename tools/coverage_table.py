#!/venv/bin/python
"""Print a markdown table of what the last run of every check covered (from evidence/*.json)."""
import glob, json, os
rows = []
for f in sorted(glob.glob(os.path.join(os.path.dirname(__file__), "..", "evidence", "C*.json"))):
    e = json.load(open(f)); c = e["coverage"]
    progs = c.get("programs") or c.get("base_programs") or c.get("configurations") or c.get("base_lines") or ""
    rows.append((e["property_id"], e["tier"], e["level"], progs, c.get("evaluations", ""), c.get("states", ""), c.get("transitions", ""),
                 c.get("traces_validated_against_impl", ""), c.get("distinct_nontrivial", ""), c.get("distinct_outcomes", ""),
                 sum(c.get("known_findings_matched", {}).values()), e["wall_s"]))
print("| check | tier | level | programs | evaluations | states | transitions | traces vs impl | non-trivial | outcomes | known cases | wall s |")
print("|---|---|---|---|---|---|---|---|---|---|---|---|")
for r in rows:
    print("| " + " | ".join(str(x) for x in r) + " |")
