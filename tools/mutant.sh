#!/bin/bash
# tools/mutant.sh <patch.diff> <check ids...> : apply a seeded change to /repo, run the quick checks, undo it.
set -u
cd "$(dirname "$0")/.."
PATCH="$1"; shift
if [ -n "$(git -C /repo status --porcelain)" ]; then echo "/repo is not clean"; exit 2; fi
git -C /repo apply "$PATCH" || { echo "patch does not apply"; exit 2; }
trap 'git -C /repo checkout -- . ; git -C /repo clean -fdq tealer' EXIT
for id in "$@"; do
  out=$(./check "$id" --tier quick 2>&1); code=$?
  echo "== $id exit=$code : $(echo "$out" | grep '^VIOLATION' | head -3 | tr '\n' ' ')"
  echo "$out" | grep -A1 '^VIOLATION' | grep 'kind=' | head -3 | cut -c1-300
done
