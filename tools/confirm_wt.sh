#!/bin/bash
# confirm all seeds of one worktree sequentially
WT="$1"
for sd in "$WT"/seed/A "$WT"/seed/B; do
  [ -f "$sd/patch.diff" ] && /verif/tools/confirm_seed.sh "$WT" "$sd"
done
