#!/bin/bash
# Runs every registered check (quick by default) sequentially; prints one summary line per check.
cd "$(dirname "$0")/.."
TIER="${1:-quick}"; shift
IDS="${@:-C01 C02 C03 C04 C05 C06 C07 C08 C09 C10 C11 C12 C13 C14 C15 C16 C17 C18 C19 C20}"
rc=0
for id in $IDS; do
  out=$(./check "$id" --tier "$TIER" 2>&1); code=$?
  echo "$id exit=$code $(echo "$out" | grep -c '^VIOLATION') violations; $(echo "$out" | grep -c '^KNOWN-FINDING') known; $(echo "$out" | tail -1)"
  if [ $code -ne 0 ]; then rc=1; echo "$out" | grep -A1 '^VIOLATION\|^HARNESS' | head -8; fi
done
exit $rc
