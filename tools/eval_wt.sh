#!/bin/bash
# tools/eval_wt.sh <patch.diff> <check ids...> : run quick checks against a seeded change applied in the scratch
# worktree /tmp/ev (never /repo): VERIF_REPO / PYTHONPATH point the checks and their subprocesses at it.
set -u
cd "$(dirname "$0")/.."
EV=${EV_WT:-/tmp/ev}
PATCH="$1"; shift
git -C $EV checkout -q -- . ; git -C $EV clean -fdq tealer
git -C $EV apply "$PATCH" || { echo "patch does not apply"; exit 2; }
trap 'git -C $EV checkout -q -- . ; git -C $EV clean -fdq tealer' EXIT
for id in "$@"; do
  out=$(VERIF_REPO=$EV PYTHONPATH=$EV VERIF_EVIDENCE_DIR=/tmp/mutant-evidence-$$ ./check "$id" --tier ${TIER:-quick} 2>&1); code=$?
  echo "== $id exit=$code : $(echo "$out" | grep -o 'kind=[^ ]*' | sort | uniq -c | tr '\n' ' ')"
  echo "$out" | tail -1
done
rm -rf /tmp/mutant-evidence-$$
