"""Meaning-preserving source rewrites (C15).  Each rewrite maps a program text to
(new text, line map old->new) or None when it does not apply."""
import re
from typing import Callable, Dict, List, Optional, Tuple

from mc.asm import NAMED, ON_COMPLETION, TYPE_ENUM, int_value, parse_int, tokenize

Rewrite = Callable[[str], Optional[Tuple[str, Dict[int, int]]]]


def _lines(src: str) -> List[str]:
    return src.rstrip("\n").split("\n")


def _ident(n: int) -> Dict[int, int]:
    return {i: i for i in range(1, n + 1)}


def rename_labels(src: str) -> Optional[Tuple[str, Dict[int, int]]]:
    ls = _lines(src)
    labels = [l.strip()[:-1] for l in ls if l.strip().endswith(":") and " " not in l.strip()]
    if not labels:
        return None
    ren = {name: f"zz{len(labels) - k}_{name[::-1]}" for k, name in enumerate(labels)}
    out = []
    for l in ls:
        toks = l.split(" ")
        if len(toks) == 1 and toks[0].endswith(":") and toks[0][:-1] in ren:
            out.append(ren[toks[0][:-1]] + ":")
        elif toks[0] in ("b", "bz", "bnz", "callsub", "switch", "match"):
            out.append(" ".join([toks[0]] + [ren.get(t, t) for t in toks[1:]]))
        else:
            out.append(l)
    return "\n".join(out) + "\n", _ident(len(ls))


def layout(src: str) -> Optional[Tuple[str, Dict[int, int]]]:
    ls = _lines(src)
    out: List[str] = []
    m: Dict[int, int] = {}
    for i, l in enumerate(ls, start=1):
        if i % 3 == 0:
            out.append("// a comment line")
        if i % 4 == 0:
            out.append("")
        if i == 1:
            out.append(l)  # the pragma stays the first instruction
        elif i % 2 == 0:
            out.append("    " + l + "   // trailing comment")
        else:
            out.append("\t" + l)
        m[i] = len(out)
    return "\n".join(out) + "\n", m


def _respell(fmt: Callable[[int], str]) -> Rewrite:
    def rw(src: str) -> Optional[Tuple[str, Dict[int, int]]]:
        ls = _lines(src)
        changed = False
        out = []
        for l in ls:
            toks = l.split(" ")
            if toks[0] in ("int", "pushint") and len(toks) == 2 and parse_int(toks[1]) is not None:
                out.append(f"{toks[0]} {fmt(parse_int(toks[1]))}")  # type: ignore
                changed = changed or out[-1] != l
            else:
                out.append(l)
        if not changed:
            return None
        return "\n".join(out) + "\n", _ident(len(ls))

    return rw


hex_ints = _respell(hex)
hex_upper_ints = _respell(lambda v: "0x" + format(v, "X"))
octal_ints = _respell(lambda v: "0" + oct(v)[2:] if v else "00")


def _enum_context(ls: List[str], i: int) -> Optional[Dict[str, int]]:
    """The enum a constant on line i is compared with (it sits next to the field read)."""
    for j in (i - 1, i + 1):
        if 0 <= j < len(ls):
            t = ls[j].split(" ")
            if t[0] in ("txn", "gtxns") and t[-1] == "TypeEnum" or (t[0] == "gtxn" and t[-1] == "TypeEnum"):
                return TYPE_ENUM
            if t[-1] == "OnCompletion" and t[0] in ("txn", "gtxn", "gtxns"):
                return ON_COMPLETION
    return None


def named_to_number(src: str) -> Optional[Tuple[str, Dict[int, int]]]:
    ls = _lines(src)
    out = list(ls)
    changed = False
    for i, l in enumerate(ls):
        toks = l.split(" ")
        if toks[0] in ("int", "pushint") and len(toks) == 2 and toks[1] in NAMED:
            ctx = _enum_context(ls, i)
            if ctx is not None and toks[1] in ctx:
                out[i] = f"{toks[0]} {ctx[toks[1]]}"
                changed = True
    if not changed:
        return None
    return "\n".join(out) + "\n", _ident(len(ls))


def number_to_named(src: str) -> Optional[Tuple[str, Dict[int, int]]]:
    ls = _lines(src)
    out = list(ls)
    changed = False
    for i, l in enumerate(ls):
        toks = l.split(" ")
        if toks[0] in ("int", "pushint") and len(toks) == 2 and parse_int(toks[1]) is not None:
            ctx = _enum_context(ls, i)
            if ctx is not None:
                inv = {v: k for k, v in ctx.items() if k != "unknown"}
                v = parse_int(toks[1])
                if v in inv:
                    out[i] = f"{toks[0]} {inv[v]}"
                    changed = True
    if not changed:
        return None
    return "\n".join(out) + "\n", _ident(len(ls))


def int_to_pushint(src: str) -> Optional[Tuple[str, Dict[int, int]]]:
    ls = _lines(src)
    out = [("pushint " + l[4:]) if l.startswith("int ") else l for l in ls]
    if out == ls:
        return None
    return "\n".join(out) + "\n", _ident(len(ls))


def int_to_intc(src: str) -> Optional[Tuple[str, Dict[int, int]]]:
    ls = _lines(src)
    if any(l.startswith("intc") for l in ls) or not ls[0].startswith("#pragma"):
        return None
    consts: List[int] = []
    for l in ls:
        if l.startswith("int ") or l.startswith("pushint "):
            v = int_value(l.split(" ")[1])
            if v is not None and v not in consts:
                consts.append(v)
    if not consts:
        return None
    out = [ls[0], "intcblock " + " ".join(str(c) for c in consts)]
    m = {1: 1}
    for i, l in enumerate(ls[1:], start=2):
        if l.startswith("int ") or l.startswith("pushint "):
            v = int_value(l.split(" ")[1])
            k = consts.index(v)  # type: ignore
            out.append(f"intc_{k}" if k < 4 else f"intc {k}")
        else:
            out.append(l)
        m[i] = len(out)
    return "\n".join(out) + "\n", m


def int_to_intc_unresolvable(src: str) -> Optional[Tuple[str, Dict[int, int]]]:
    """Like int_to_intc, but the constant block is loaded twice: tealer then cannot tell which
    block an intc refers to and must treat every constant as unknown (the AVM uses the last
    intcblock executed, which here is identical)."""
    r = int_to_intc(src)
    if r is None:
        return None
    ls = _lines(r[0])
    out = ls[:2] + [ls[1]] + ls[2:]
    m = {k: (v if v <= 2 else v + 1) for k, v in r[1].items()}
    return "\n".join(out) + "\n", m


def int_to_intc_decoy(src: str) -> Optional[Tuple[str, Dict[int, int]]]:
    """The entry block loads a DECOY constant block (the real constants rotated by one); the real
    block is re-loaded immediately before every intc.  The AVM uses the block loaded last, so the
    meaning is unchanged; a tool that resolves intc from the entry block alone reads wrong
    constants."""
    r = int_to_intc(src)
    if r is None:
        return None
    ls = _lines(r[0])
    real = ls[1]
    consts = real.split(" ")[1:]
    decoy = consts[1:] + consts[:1] if len(set(consts)) > 1 else [str(int(consts[0]) + 1)] * len(consts)
    out = [ls[0], "intcblock " + " ".join(decoy)]
    pos = {1: 1, 2: 2}
    for i, l in enumerate(ls[2:], start=3):
        if l.startswith("intc"):
            out.append(real)
        out.append(l)
        pos[i] = len(out)
    m = {k: pos[v] for k, v in r[1].items() if v in pos}
    return "\n".join(out) + "\n", m


def pad_statements(src: str) -> Optional[Tuple[str, Dict[int, int]]]:
    """Insert `int 7; pop` at statement boundaries: before a line at which the block-local
    stack depth is 0, that is not a label and does not follow a branch/terminator/label-less
    block end."""
    from mc import spec  # pylint: disable=import-outside-toplevel

    toks = tokenize(src)
    text_lines = _lines(src)
    by_line = {t.lineno: t for t in toks}
    out: List[str] = []
    m: Dict[int, int] = {}
    depth = 0
    changed = False
    prev_op = "#pragma"
    for i, l in enumerate(text_lines, start=1):
        t = by_line.get(i)
        if t is None:
            out.append(l)
            continue
        if (depth == 0 and t.op not in ("label", "#pragma") and prev_op not in ("b", "bz", "bnz", "switch", "match", "callsub", "retsub", "return", "err")
                and prev_op != "#pragma"):
            out += ["int 7", "pop"]
            changed = True
        out.append(l)
        m[i] = len(out)
        if t.op in ("label", "#pragma"):
            depth = 0 if t.op == "label" else depth
        else:
            op = spec.BY_NAME.get(t.op)
            if op is None:
                return None
            depth = max(0, depth - spec.pops(op, t.args)) + spec.pushes(op, t.args)
            if t.op in ("b", "bz", "bnz", "switch", "match", "callsub", "retsub", "return", "err"):
                depth = 0
        prev_op = t.op
    if not changed:
        return None
    return "\n".join(out) + "\n", m


TEXT_REWRITES: Dict[str, Rewrite] = {
    "rename-labels": rename_labels,
    "layout": layout,
    "hex-ints": hex_ints,
    "hex-upper-ints": hex_upper_ints,
    "octal-ints": octal_ints,
    "named-to-number": named_to_number,
    "number-to-named": number_to_named,
    "int-to-pushint": int_to_pushint,
    "int-to-intc": int_to_intc,
    "pad-statements": pad_statements,
}


def compose(src: str, names: List[str]) -> Optional[Tuple[str, Dict[int, int]]]:
    cur = src
    total: Optional[Dict[int, int]] = None
    applied = False
    for n in names:
        r = TEXT_REWRITES[n](cur)
        if r is None:
            continue
        applied = True
        cur, m = r
        total = m if total is None else {k: m[v] for k, v in total.items() if v in m}
    if not applied or total is None:
        return None
    return cur, total
