"""G2 - structured core language, skeleton enumeration, slot filling and rendering.

AST (tuples):
  stmt :=  ("assert", c) | ("ret", c) | ("ret1",) | ("ret0",) | ("err",) | ("pad",)
         | ("call", i) | ("if", c, pol, T, E)        pol in {"bz","bnz"}; E is None (no else) or a block
         | ("while", c, pol, B)                      bz: test-at-top loop; bnz: do-while
  c    :=  ("slot", k) | ("not", c) | ("and", c, c) | ("or", c, c)
  prog :=  (main_block, [sub_block, ...])

A *skeleton* has conditions built over numbered slots; ``fill`` replaces slot k by an atom
(a list of TEAL lines leaving one uint64 on the stack).  Rendering follows DESIGN.md
Appendix B.  All enumerations are complete for their bound and deterministic.
"""
from typing import Any, Dict, Iterator, List, Optional, Sequence, Tuple

Stmt = Tuple[Any, ...]
Block = Tuple[Stmt, ...]

TERMINATORS = ("ret", "ret1", "ret0", "err")

# ------------------------------------------------------------------------------------------
# condition shapes over slots


def cond_shapes(level: int) -> List[Tuple[Any, int]]:
    """(shape, number_of_slots).  level 0: A; 1: A, !A, A&&A, A||A; 2: + depth-2 forms."""
    s0 = ("slot", 0)
    s1 = ("slot", 1)
    s2 = ("slot", 2)
    out: List[Tuple[Any, int]] = [(s0, 1)]
    if level >= 1:
        out += [(("not", s0), 1), (("and", s0, s1), 2), (("or", s0, s1), 2)]
    if level >= 2:
        out += [
            (("not", ("not", s0)), 1),
            (("not", ("and", s0, s1)), 2),
            (("not", ("or", s0, s1)), 2),
            (("and", s0, ("not", s1)), 2),
            (("or", ("not", s0), s1), 2),
            (("and", ("or", s0, s1), s2), 3),
            (("or", ("and", s0, s1), s2), 3),
            (("and", s0, ("and", s1, s2)), 3),
        ]
    return out


def _shift(c: Any, off: int) -> Any:
    if c[0] == "slot":
        return ("slot", c[1] + off)
    return (c[0],) + tuple(_shift(x, off) for x in c[1:])


# ------------------------------------------------------------------------------------------
# skeleton enumeration


class Opts:  # pylint: disable=too-few-public-methods,too-many-instance-attributes
    def __init__(  # pylint: disable=too-many-arguments
        self,
        kinds: Sequence[str] = ("assert", "ret", "ret1", "err", "if", "while", "call"),
        cond_level: int = 0,
        max_depth: int = 2,
        nsubs: int = 0,
        pols: Sequence[str] = ("bz", "bnz"),
        else_variants: Sequence[str] = ("none", "block"),
        allow_recursion: bool = False,
    ):
        self.kinds = tuple(kinds)
        self.cond_level = cond_level
        self.max_depth = max_depth
        self.nsubs = nsubs
        self.pols = tuple(pols)
        self.else_variants = tuple(else_variants)
        self.allow_recursion = allow_recursion


def _stmts(size: int, depth: int, o: Opts, callable_subs: Sequence[int]) -> Iterator[Tuple[Stmt, int]]:
    """Statements of exactly ``size`` nodes; yields (stmt, number_of_slots) with slots 0..k-1."""
    shapes = cond_shapes(o.cond_level)
    if size == 1:
        for kind in o.kinds:
            if kind in ("assert", "ret"):
                for sh, k in shapes:
                    yield (kind, sh), k
            elif kind in ("ret1", "ret0", "err", "pad"):
                yield (kind,), 0
            elif kind == "call":
                for i in callable_subs:
                    yield ("call", i), 0
    if depth <= 0:
        return
    if "if" in o.kinds:
        for sh, k in shapes:
            for pol in o.pols:
                for tsize in range(0, size):
                    esize = size - 1 - tsize
                    for tb, tk in _blocks(tsize, depth - 1, o, callable_subs):
                        tb2 = _shift_block(tb, k)
                        if esize == 0:
                            if "none" in o.else_variants:
                                yield ("if", sh, pol, tb2, None), k + tk
                            if "block" in o.else_variants and tsize > 0 and _terminated(tb):
                                # explicit empty else only differs when T ends in a terminator
                                pass
                        else:
                            if "block" in o.else_variants:
                                for eb, ek in _blocks(esize, depth - 1, o, callable_subs):
                                    yield ("if", sh, pol, tb2, _shift_block(eb, k + tk)), k + tk + ek
    if "while" in o.kinds and size >= 1:
        for sh, k in shapes:
            for pol in o.pols:
                for bb, bk in _blocks(size - 1, depth - 1, o, callable_subs):
                    yield ("while", sh, pol, _shift_block(bb, k)), k + bk


def _terminated(b: Block) -> bool:
    return bool(b) and b[-1][0] in TERMINATORS


def _shift_stmt(s: Stmt, off: int) -> Stmt:
    kind = s[0]
    if kind in ("assert", "ret"):
        return (kind, _shift(s[1], off))
    if kind == "if":
        return ("if", _shift(s[1], off), s[2], _shift_block(s[3], off), None if s[4] is None else _shift_block(s[4], off))
    if kind == "while":
        return ("while", _shift(s[1], off), s[2], _shift_block(s[3], off))
    return s


def _shift_block(b: Block, off: int) -> Block:
    return tuple(_shift_stmt(s, off) for s in b)


def _blocks(size: int, depth: int, o: Opts, callable_subs: Sequence[int]) -> Iterator[Tuple[Block, int]]:
    """Blocks (statement sequences) with exactly ``size`` nodes; a block ends at its first
    terminator."""
    if size == 0:
        yield (), 0
        return
    for first in range(1, size + 1):
        for st, k in _stmts(first, depth, o, callable_subs):
            if st[0] in TERMINATORS:
                if first == size:
                    yield (st,), k
                continue
            for rest, rk in _blocks(size - first, depth, o, callable_subs):
                yield (st,) + _shift_block(rest, k), k + rk


def skeletons(size: int, o: Opts) -> Iterator[Tuple[Tuple[Block, Tuple[Block, ...]], int]]:
    """All programs with exactly ``size`` statement nodes (main + subroutines).  Subroutine i
    may call subroutines j > i (and itself / lower ones when allow_recursion).  Every
    subroutine is called at least once, S0 from main first (canonical numbering)."""
    n = o.nsubs
    if n == 0:
        for b, k in _blocks(size, o.max_depth, o, ()):
            yield (b, ()), k
        return
    # distribute sizes: main >= 1 (must call), each sub >= 0
    def rec(i: int, remaining: int, acc: List[Tuple[Block, int]]) -> Iterator[List[Tuple[Block, int]]]:
        if i == n + 1:
            if remaining == 0:
                yield list(acc)
            return
        lo = 1 if i == 0 else 0
        for sz in range(lo, remaining + 1):
            if i == 0:
                callable_subs: Sequence[int] = tuple(range(n))
            elif o.allow_recursion:
                callable_subs = tuple(range(n))
            else:
                callable_subs = tuple(range(i, n))  # sub index i-1 may call subs >= i
            for b, k in _blocks(sz, o.max_depth, o, callable_subs):
                acc.append((b, k))
                yield from rec(i + 1, remaining - sz, acc)
                acc.pop()

    for parts in rec(0, size, []):
        called = set()
        order: List[int] = []
        for b, _ in parts:
            _collect_calls(b, called, order)
        if called != set(range(n)) or order != sorted(order):
            continue
        off = 0
        blocks: List[Block] = []
        for b, k in parts:
            blocks.append(_shift_block(b, off))
            off += k
        yield (blocks[0], tuple(blocks[1:])), off


def _collect_calls(b: Block, called: set, order: List[int]) -> None:
    for s in b:
        if s[0] == "call":
            if s[1] not in called:
                called.add(s[1])
                order.append(s[1])
        elif s[0] == "if":
            _collect_calls(s[3], called, order)
            if s[4] is not None:
                _collect_calls(s[4], called, order)
        elif s[0] == "while":
            _collect_calls(s[3], called, order)


# ------------------------------------------------------------------------------------------
# rendering


class Renderer:  # pylint: disable=too-many-instance-attributes
    def __init__(self, atoms: Sequence[Sequence[str]], version: int = 8, subs_first: bool = False, fall_off: bool = False, label_prefix: str = "",
                 pad: Sequence[str] = ("int 7", "pop"), entry_loop: bool = False):
        self.atoms = atoms
        # entry_loop: a loop that is the first statement of a subroutine uses the subroutine's own label as
        # its header (the back edge targets the entry label itself)
        self.entry_loop = entry_loop
        self._forced_loop: Optional[str] = None
        self.pad = list(pad)
        self.version = version
        self.subs_first = subs_first
        self.fall_off = fall_off
        self.lines: List[str] = []
        self.k = 0
        self.stmt_lines: List[Tuple[int, str]] = []  # (line index of the stmt's first line, kind)
        self.lp = label_prefix

    def fresh(self, stem: str) -> str:
        self.k += 1
        return f"{self.lp}{stem}_{self.k}"

    def cond(self, c: Any) -> None:
        if c[0] == "slot":
            atom = self.atoms[c[1]]
            if any("@L" in l for l in atom):
                # atoms may span blocks: every occurrence gets its own label
                lab = self.fresh("xb")
                atom = [l.replace("@L", lab) for l in atom]
            self.lines.extend(atom)
        elif c[0] == "not":
            self.cond(c[1])
            self.lines.append("!")
        else:
            self.cond(c[1])
            self.cond(c[2])
            self.lines.append("&&" if c[0] == "and" else "||")

    def block(self, b: Block) -> bool:
        """Emit a block; returns True if it ends in a terminator."""
        term = False
        for s in b:
            term = self.stmt(s)
        return term

    def stmt(self, s: Stmt) -> bool:  # pylint: disable=too-many-branches,too-many-statements
        kind = s[0]
        self.stmt_lines.append((len(self.lines), kind))
        forced, self._forced_loop = self._forced_loop, None
        if kind == "assert":
            self.cond(s[1])
            self.lines.append("assert")
        elif kind == "ret":
            self.cond(s[1])
            self.lines.append("return")
            return True
        elif kind == "ret1":
            self.lines += ["int 1", "return"]
            return True
        elif kind == "ret0":
            self.lines += ["int 0", "return"]
            return True
        elif kind == "err":
            self.lines.append("err")
            return True
        elif kind == "pad":
            self.lines += self.pad
        elif kind == "call":
            self.lines.append(f"callsub {self.lp}sub_{s[1]}")
        elif kind == "if":
            _, c, pol, tb, eb = s
            self.cond(c)
            if eb is None:
                end = self.fresh("end")
                # `if c {T}`: skip T when c is false (bz) / when c is true (bnz: `unless`)
                self.lines.append(f"{pol} {end}")
                self.block(tb)
                self.lines.append(f"{end}:")
            else:
                els = self.fresh("else")
                end = self.fresh("end")
                self.lines.append(f"{pol} {els}")
                t_term = self.block(tb)
                if not t_term:
                    self.lines.append(f"b {end}")
                self.lines.append(f"{els}:")
                e_term = self.block(eb)
                if not t_term:
                    self.lines.append(f"{end}:")
                elif e_term:
                    return True
        elif kind == "while":
            _, c, pol, body = s
            loop = forced or self.fresh("loop")
            if pol == "bz":
                done = self.fresh("done")
                if not forced:
                    self.lines.append(f"{loop}:")
                self.cond(c)
                self.lines.append(f"bz {done}")
                term = self.block(body)
                if not term:
                    self.lines.append(f"b {loop}")
                self.lines.append(f"{done}:")
            else:
                if not forced:
                    self.lines.append(f"{loop}:")
                term = self.block(body)
                if term:
                    return True
                self.cond(c)
                self.lines.append(f"bnz {loop}")
        return False

    def program(self, prog: Tuple[Block, Tuple[Block, ...]], sub_order: Optional[Sequence[int]] = None) -> str:
        main, subs = prog
        out: List[str] = [f"#pragma version {self.version}"]
        tags: List[Any] = [("h", 0)]
        sub_chunks: List[List[str]] = []
        self.lines = []
        term = self.block(main)
        main_lines = self.lines
        for i, sb in enumerate(subs):
            self.lines = [f"{self.lp}sub_{i}:"]
            self._forced_loop = f"{self.lp}sub_{i}" if (self.entry_loop and sb and sb[0][0] == "while") else None
            t = self.block(sb)
            self._forced_loop = None
            if not t:
                self.lines.append("retsub")
            sub_chunks.append(self.lines)
        order = list(sub_order) if sub_order is not None else list(range(len(subs)))

        def emit_main() -> None:
            for k, l in enumerate(main_lines):
                out.append(l)
                tags.append(("m", k))

        def emit_subs() -> None:
            for i in order:
                for k, l in enumerate(sub_chunks[i]):
                    out.append(l)
                    tags.append(("s", i, k))

        def glue(ls: List[str], name: str) -> None:
            for k, l in enumerate(ls):
                out.append(l)
                tags.append(("g", name, k))

        if self.subs_first and subs:
            glue([f"b {self.lp}main_0"], "jump")
            emit_subs()
            glue([f"{self.lp}main_0:"], "mainlabel")
            emit_main()
            if not term:
                glue(["int 1"] if self.fall_off else ["int 1", "return"], "end")
        else:
            emit_main()
            if not term:
                glue(["int 1", "return"] if (subs or not self.fall_off) else ["int 1"], "end")
            emit_subs()
        self.tags = tags
        return "\n".join(out) + "\n"


def render(prog: Tuple[Block, Tuple[Block, ...]], atoms: Sequence[Sequence[str]], **kw: Any) -> str:
    return Renderer(atoms, **kw).program(prog)


def render_tagged(prog: Tuple[Block, Tuple[Block, ...]], atoms: Sequence[Sequence[str]], sub_order: Optional[Sequence[int]] = None,
                  **kw: Any) -> Tuple[str, List[Any]]:
    """(source, tag per line): tags identify a line independently of where its chunk is placed."""
    r = Renderer(atoms, **kw)
    src = r.program(prog, sub_order)
    return src, r.tags


def count_slots(prog: Tuple[Block, Tuple[Block, ...]]) -> int:
    best = -1

    def c(x: Any) -> None:
        nonlocal best
        if x[0] == "slot":
            best = max(best, x[1])
        else:
            for y in x[1:]:
                c(y)

    def b(bl: Block) -> None:
        for s in bl:
            if s[0] in ("assert", "ret"):
                c(s[1])
            elif s[0] == "if":
                c(s[1])
                b(s[3])
                if s[4] is not None:
                    b(s[4])
            elif s[0] == "while":
                c(s[1])
                b(s[3])

    b(prog[0])
    for sb in prog[1]:
        b(sb)
    return best + 1
