"""Program spaces of the detector checks (C01, C02, C03): per detector, the alphabet of the
fields it governs (+ self-checks through gtxn forms), layered as in mc/gen/spaces.py."""
import hashlib
from typing import Any, Iterator, List, Set, Tuple

from mc.gen import atoms as A
from mc.gen import spaces

Z = "global ZeroAddress"


def _h(s: str) -> bytes:
    """128-bit digest used to de-duplicate programs without keeping their text."""
    return hashlib.md5(s.encode()).digest()


def _addr_small(field: str) -> List[A.Atom]:
    return [
        [f"txn {field}", Z, "=="],
        [f"addr {A.LIT1}", f"txn {field}", "=="],
        [f"txn {field}", Z, "!="],
        ["txn GroupIndex", "int 0", "=="],
        [f"gtxn 0 {field}", Z, "=="],
        ["int 1", f"gtxns {field}", Z, "=="],
    ]


def detector_spaces(tier: str, chains: bool = True) -> Iterator[Tuple[str, str, str]]:  # pylint: disable=too-many-locals,too-many-statements
    """Yields (focus detector, mode, program); mode 'direct' = direct-check fragment."""
    q = tier == "quick"
    top = 2 if q else None
    seen: Set[bytes] = set()

    def emit(focus: str, mode: str, gen: Iterator[str]) -> Iterator[Tuple[str, str, str]]:
        for s in gen:
            h = _h(s)
            if h not in seen:
                seen.add(h)
                yield focus, mode, s

    # rekey-to
    full = (A.addr_atoms("RekeyTo") + A.gtxn_variants(["txn RekeyTo", Z, "=="], "txn RekeyTo", (0, 1), (1,))
            + A.cross_block(["txn RekeyTo", Z, "=="]) + A.cross_block(["txn RekeyTo", f"addr {A.LIT1}", "!="]))
    yield from emit("rekey-to", "direct", spaces.layered(full, _addr_small("RekeyTo"), tier, chains=chains, l2_top_alpha=top, l2_size=None if q else 3))
    sh = A.shuffled(["txn RekeyTo", Z, "=="]) + A.shuffled(["txn Fee", "int 1000", ">"])
    yield from emit("rekey-to", "shuffle", spaces.layered(sh, sh[:2], tier, chains=False, l2_size=2, l3=False, max_subs=1))
    # multi-way branches consuming a tracked condition (soundness only)
    yield from emit("rekey-to", "shuffle", spaces.multiway(A.addr_atoms("RekeyTo") + A.fee_atoms((1000, 272001)) + A.kind_atoms("small")
                                                         + A.size_atoms((2, 16)) + [["txn TypeEnum"], ["txn OnCompletion"], ["global GroupSize"]]))
    # loops that really iterate (counter conditions; soundness only)
    yield from emit("rekey-to", "shuffle", spaces.counted_loops(_addr_small("RekeyTo")[:3], tier))
    # can-close-account / can-close-asset
    for det, field, ty in (("can-close-account", "CloseRemainderTo", "pay"), ("can-close-asset", "AssetCloseTo", "axfer")):
        small = [
            [f"txn {field}", Z, "=="],
            ["txn TypeEnum", f"int {ty}", "=="],
            ["txn TypeEnum", f"int {ty}", "!="],
            [f"txn {field}", Z, "!="],
            ["txn TypeEnum", "int appl", "=="],
        ]
        full = A.addr_atoms(field, (Z, f"addr {A.LIT1}")) + A.cmp_atoms(["txn TypeEnum"], ["int pay", "int axfer", "int appl", "int 1", "int 4"], ("==", "!="))
        l2 = 2 if (q or det == "can-close-asset") else 3
        yield from emit(det, "direct", spaces.layered(full[::2] if q else full, small, tier, chains=chains, l2_size=l2, max_subs=1))
    # missing-fee-check
    full = A.fee_atoms((1000, 272000, 272001) if q else (0, 1000, 272000, 272001, 1000000)) + A.cross_block(["txn Fee", "int 1000", ">"]) + A.cross_block(
        ["txn Fee", "int 1000", "<="])
    small = [
        ["txn Fee", "int 1000", "<="],
        ["int 272001", "txn Fee", ">"],
        ["txn Fee", "int 500000", ">="],
        ["txn GroupIndex", "int 0", "=="],
        ["gtxn 0 Fee", "int 1000", "<="],
    ]
    yield from emit("missing-fee-check", "direct", spaces.layered(full[::2] if q else full, small, tier, chains=chains, l2_top_alpha=top, l2_size=2 if q else 3))
    # is-updatable / is-deletable
    full = A.kind_atoms("small" if q else "full") + A.cross_block(["txn OnCompletion", "int UpdateApplication", "!="]) + A.cross_block(
        ["txn OnCompletion", "int UpdateApplication", "=="])
    small = [
        ["txn OnCompletion", "int UpdateApplication", "!="],
        ["txn OnCompletion", "int NoOp", "=="],
        ["txn TypeEnum", "int appl", "=="],
        ["int DeleteApplication", "txn OnCompletion", "=="],
        ["txn TypeEnum", "int pay", "!="],
    ]
    yield from emit("is-updatable", "direct", spaces.layered(full[::2] if q else full, small, tier, chains=chains, l2_top_alpha=top, l2_size=2 if q else 3))
    # unprotected-updatable / -deletable
    small = [
        ["txn OnCompletion", "int UpdateApplication", "!="],
        ["txn Sender", "global CreatorAddress", "=="],
        [f"addr {A.LIT1}", "txn Sender", "=="],
        ["txn OnCompletion", "int DeleteApplication", "=="],
        ["txn Sender", f"addr {A.LIT1}", "!="],
    ]
    full = A.addr_atoms("Sender", ("global CreatorAddress", f"addr {A.LIT1}")) + A.cmp_atoms(
        ["txn OnCompletion"], ["int UpdateApplication", "int DeleteApplication", "int NoOp"], ("==", "!=")
    )
    yield from emit("unprotected-updatable", "direct", spaces.layered(full, small, tier, chains=chains, l2_size=2 if q else 3, max_subs=1))
    # G1A: odd raw layouts (branch / call as last instruction, back edges, labels in odd places) around one real check
    from mc.gen import raw  # pylint: disable=import-outside-toplevel

    n1a = 4 if q else 5
    for focus, atom in (("rekey-to", ["txn RekeyTo", Z, "=="]), ("missing-fee-check", ["txn Fee", "int 1000", "<="]),
                        ("is-updatable", ["txn OnCompletion", "int UpdateApplication", "!="]),
                        ("rekey-to", ["txn RekeyTo", Z, "!="])):
        yield from emit(focus, "g1a", raw.with_atom(atom, n1a))
    # group-size-check: statements that read another transaction by absolute index
    kinds = ("assert", "ret", "ret1", "err", "if", "while", "call", "pad")
    small = [
        ["global GroupSize", "int 2", "=="],
        ["int 3", "global GroupSize", ">="],
        ["global GroupSize", "int 16", "<"],
        ["global GroupSize", "int 16", "!="],
    ]
    full = A.size_atoms((0, 2, 16, 17) if q else (0, 1, 2, 3, 16, 17))
    yield from emit("group-size-check", "direct", spaces.layered(full, small, tier, chains=chains, kinds=kinds, pad=("gtxn 1 Fee", "pop"), l3=not q, l2_top_alpha=1 if q else None,
                                                                 l2_size=None if q else 3))
    yield from emit(
        "group-size-check", "direct",
        spaces.layered(full[:8], small[:2], tier, chains=False, kinds=kinds, pad=("int 0", "gtxns Fee", "pop"), l2_size=2, l3=False, max_subs=1),
    )
    # several reads in one block: a relative read before / after the absolute one, and two absolute ones
    for pad in (("txn GroupIndex", "int 1", "-", "gtxns Fee", "pop", "int 0", "gtxns Fee", "pop"),
                ("int 0", "gtxns Fee", "pop", "txn GroupIndex", "int 1", "-", "gtxns Fee", "pop"),
                ("txn GroupIndex", "gtxns Fee", "pop", "gtxn 1 Fee", "pop"),
                ("txn GroupIndex", "int 1", "+", "gtxns Fee", "int 2", "gtxns Fee", "+", "pop")):
        yield from emit(
            "group-size-check", "direct",
            spaces.layered(full[:4], small[:2], tier, chains=False, kinds=kinds, pad=pad, l2_size=2, l3=False, max_subs=1),
        )
    yield from emit("group-size-check", "shuffle", spaces.counted_loops(small[:2], tier, kinds=kinds, pad=("gtxn 1 Fee", "pop")))
