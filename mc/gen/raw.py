"""G1 - all raw instruction lists of n lines over a small alphabet (DESIGN.md 2.5).

Complete enumeration, canonical label order (first occurrences are La, Lb, Lc in that
order), every referenced label defined exactly once.  Deterministic order, simplest first.
"""
from typing import Iterator, List, Sequence, Tuple

LABELS = ("La", "Lb", "Lc")
PLAIN_FULL = ("txn FirstValid", "int 0", "int 1", "pop", "retsub", "return", "err", "assert")
PLAIN_SMALL = ("txn FirstValid", "int 1", "retsub", "return", "err")
JUMPS = ("b", "bz", "bnz", "callsub")


def _tokens(nlabels: int, plain: Sequence[str], multi: bool) -> List[Tuple[str, Tuple[int, ...], bool]]:
    """(text template, labels referenced, is_definition)"""
    toks: List[Tuple[str, Tuple[int, ...], bool]] = [(p, (), False) for p in plain]
    for i in range(nlabels):
        toks.append((f"{LABELS[i]}:", (i,), True))
    for j in JUMPS:
        for i in range(nlabels):
            toks.append((f"{j} {LABELS[i]}", (i,), False))
    if multi and nlabels >= 2:
        for op in ("switch", "match"):
            toks.append((f"{op} La Lb", (0, 1), False))
            toks.append((f"{op} Lb La", (1, 0), False))
            toks.append((f"{op} La La", (0, 0), False))
    return toks


def programs(
    n: int,
    nlabels: int = 2,
    plain: Sequence[str] = PLAIN_FULL,
    multi: bool = False,
    version: int = 8,
) -> Iterator[str]:
    """All valid programs with exactly n lines after the pragma."""
    toks = _tokens(nlabels, plain, multi)
    header = f"#pragma version {version}\n"

    def rec(pos: int, lines: List[str], defined: int, seen: int, referenced: int) -> Iterator[str]:
        # defined / referenced: bitmasks; seen: number of labels introduced so far
        if pos == n:
            if referenced & ~defined == 0:
                yield header + "\n".join(lines) + "\n"
            return
        missing = bin(referenced & ~defined).count("1")
        if missing > n - pos:
            return
        for text, labs, is_def in toks:
            s = seen
            ok = True
            for lab in labs:
                if lab > s:
                    ok = False
                    break
                if lab == s:
                    s += 1
            if not ok:
                continue
            if is_def:
                if defined >> labs[0] & 1:
                    continue
                lines.append(text)
                yield from rec(pos + 1, lines, defined | (1 << labs[0]), s, referenced)
                lines.pop()
            else:
                r = referenced
                for lab in labs:
                    r |= 1 << lab
                lines.append(text)
                yield from rec(pos + 1, lines, defined, s, r)
                lines.pop()

    yield from rec(0, [], 0, 0, 0)


def with_atom(atom: Sequence[str], max_n: int = 4, nlabels: int = 2) -> Iterator[str]:
    """G1A - raw layouts in which the pushed value is a tracked condition: every G1 program over
    the alphabet {ATOM, int 1, labels, b/bz/bnz/callsub, retsub, return, err, assert} where ATOM
    is a multi-line atom leaving one value on the stack (odd layouts + a real check)."""
    marker = "@ATOM"
    plain = (marker, "int 1", "retsub", "return", "err", "assert")
    text = "\n".join(atom)
    for n in range(1, max_n + 1):
        for s in programs(n, nlabels, plain):
            if marker in s:
                yield s.replace(marker, text)


def space(max_n: int, nlabels: int = 2, plain: Sequence[str] = PLAIN_FULL, multi: bool = False) -> Iterator[str]:
    for n in range(1, max_n + 1):
        yield from programs(n, nlabels, plain, multi)


DEAD_TOKENS = ("int 1", "bz La", "bz Lb", "bnz La", "bnz Lb", "b La", "b Lb", "callsub La", "callsub Lb", "retsub", "return", "err",
               "switch La Lb", "match La Lb")
DEAD_HEADS = ("callsub La\nreturn", "b La", "int 1\nreturn", "callsub Lb\nint 1\nreturn")
DEAD_TAILS = ("La:\nLb:\nretsub", "La:\nint 1\nLb:\nreturn", "La:\nretsub\nLb:\nretsub", "La:\nint 1\nbnz Lb\nretsub\nLb:\nretsub")


def dead_code(all_pairs: bool = True, version: int = 8) -> Iterator[str]:
    """G1D - unreachable segments between live code: live head (ends in a terminator), one or two
    dead instructions (every control instruction, jumping into the live tail), live tail defining
    both labels (as subroutine body or as main code, depending on the head)."""
    header = f"#pragma version {version}\n"
    segs: List[str] = list(DEAD_TOKENS)
    for a in DEAD_TOKENS:
        for b in DEAD_TOKENS:
            if all_pairs or a == "int 1":
                segs.append(a + "\n" + b)
    for h in DEAD_HEADS:
        for t in DEAD_TAILS:
            for s in segs:
                yield header + h + "\n" + s + "\n" + t + "\n"


SUB_TOKENS = ("bnz La", "bnz Lb", "b La", "b Lb", "retsub", "callsub g", "La:", "Lb:")


def sub_bodies(max_n: int = 6, version: int = 8) -> Iterator[str]:
    """G1S - every control-flow shape of a subroutine body of up to max_n tokens over
    {bnz L, b L, retsub, callsub g, L:} with two labels, called once from a fixed main program and
    closed by a final retsub; g is a second subroutine.  (`bnz L` stands for `int 1; bnz L`.)"""
    header = f"#pragma version {version}\ncallsub f\nint 1\nreturn\nf:\n"
    footer = "retsub\ng:\nretsub\n"

    def rec(pos: int, n: int, toks: List[str], defined: int, seen: int, referenced: int) -> Iterator[str]:
        if pos == n:
            if referenced & ~defined == 0 and defined & ~referenced == 0:
                body = "\n".join(t.replace("bnz ", "int 1\nbnz ") for t in toks)
                yield header + body + ("\n" if body else "") + footer
            return
        for t in SUB_TOKENS:
            lab = 0 if "La" in t else (1 if "Lb" in t else None)
            s = seen
            if lab is not None:
                if lab > s:
                    continue
                if lab == s:
                    s += 1
            if t.endswith(":"):
                if defined >> lab & 1:  # type: ignore
                    continue
                if toks and toks[-1].endswith(":"):
                    continue  # two labels in a row add no shape
                toks.append(t)
                yield from rec(pos + 1, n, toks, defined | (1 << lab), s, referenced)  # type: ignore
                toks.pop()
            else:
                r = referenced | (1 << lab) if lab is not None else referenced
                toks.append(t)
                yield from rec(pos + 1, n, toks, defined, s, r)
                toks.pop()

    for n in range(0, max_n + 1):
        yield from rec(0, n, [], 0, 0, 0)


def ladders(nseg: int = 5, forward_only: bool = True, version: int = 8) -> Iterator[str]:
    """G1L - 'ladder' programs: nseg labelled segments S0..S(n-1); each holds an optional marker
    instruction (`int 5`) and ends in fall-through, `return`, `b Sj` or `int 1; bnz Sj` (j > i when
    forward_only, any j otherwise); the last segment returns.  Every such program: all the ways
    several paths can reach the same code in different orders."""
    import itertools  # pylint: disable=import-outside-toplevel

    header = f"#pragma version {version}\n"

    def terms(i: int) -> List[str]:
        if i == nseg - 1:
            return ["int 1\nreturn"]
        out = ["", "int 1\nreturn"]
        for j in range(nseg):
            if j == i or (forward_only and j < i):
                continue
            out.append(f"b S{j}")
            out.append(f"int 1\nbnz S{j}")
        return out

    for marks in itertools.product((False, True), repeat=nseg):
        if sum(marks) == 0:
            continue
        for ts in itertools.product(*[terms(i) for i in range(nseg)]):
            parts = []
            for i in range(nseg):
                seg = [f"S{i}:"] if (i or not forward_only) else []
                if marks[i]:
                    seg += ["int 5", "pop"]
                if ts[i]:
                    seg.append(ts[i])
                parts.append("\n".join(seg))
            yield header + "\n".join(p for p in parts if p) + "\n"
