"""Atom alphabets of the G2 spaces (DESIGN.md 2.5).  An atom is a list of TEAL lines that
leaves one uint64 on the stack.  ``mirrored`` atoms push the constant first (operands
swapped under the same operator); what that means is decided by the reference machine."""
from typing import Dict, List, Sequence

LIT1 = "AEAQCAIBAEAQCAIBAEAQCAIBAEAQCAIBAEAQCAIBAEAQCAIBAEA5RCDXMI"
LIT2 = "AIBAEAQCAIBAEAQCAIBAEAQCAIBAEAQCAIBAEAQCAIBAEAQCAIBMXPWWNQ"

Atom = List[str]
CMP6 = ("==", "!=", "<", "<=", ">", ">=")

FREE: Atom = ["txn FirstValid", "int 7", ">"]
FREE2: Atom = ["txn LastValid", "int 7", ">"]
TRUE: Atom = ["int 1"]


def cmp_atoms(read: Sequence[str], consts: Sequence[str], ops: Sequence[str], orders: Sequence[str] = ("fc", "cf")) -> List[Atom]:
    out: List[Atom] = []
    for c in consts:
        for op in ops:
            for o in orders:
                if o == "fc":
                    out.append(list(read) + [c, op])
                else:
                    out.append([c] + list(read) + [op])
    return out


def size_atoms(ns: Sequence[int] = (1, 2, 3, 16, 17), ops: Sequence[str] = CMP6, orders: Sequence[str] = ("fc", "cf")) -> List[Atom]:
    return cmp_atoms(["global GroupSize"], [f"int {n}" for n in ns], ops, orders)


def index_atoms(ns: Sequence[int] = (0, 1, 2, 15, 16), ops: Sequence[str] = CMP6, orders: Sequence[str] = ("fc", "cf")) -> List[Atom]:
    return cmp_atoms(["txn GroupIndex"], [f"int {n}" for n in ns], ops, orders)


def fee_atoms(cs: Sequence[int] = (0, 1000, 272000, 272001, 1000000), ops: Sequence[str] = CMP6, orders: Sequence[str] = ("fc", "cf")) -> List[Atom]:
    return cmp_atoms(["txn Fee"], [f"int {c}" for c in cs], ops, orders)


def addr_atoms(field: str, comparands: Sequence[str] = ("global ZeroAddress", f"addr {LIT1}", f"addr {LIT2}", "global CreatorAddress"),
               ops: Sequence[str] = ("==", "!="), orders: Sequence[str] = ("fc", "cf")) -> List[Atom]:
    return cmp_atoms([f"txn {field}"], list(comparands), ops, orders)


def kind_atoms(level: str = "full") -> List[Atom]:
    out: List[Atom] = []
    types = ["int pay", "int axfer", "int appl", "int 1", "int 4", "int 6", "int keyreg", "int 0", "int 7"]
    ocs = ["int NoOp", "int UpdateApplication", "int DeleteApplication", "int 4", "int 5", "int OptIn", "int 6"]
    if level == "small":
        types = ["int pay", "int appl", "int 4"]
        ocs = ["int NoOp", "int UpdateApplication", "int 5"]
    out += cmp_atoms(["txn TypeEnum"], types, ("==", "!="))
    out += cmp_atoms(["txn OnCompletion"], ocs, ("==", "!="))
    out += [["txn ApplicationID"], ["txn ApplicationID", "!"]]
    out += cmp_atoms(["txn ApplicationID"], ["int 0", "int 5"], ("==", "!="))
    return out


def gtxn_variants(atom: Atom, field_read: str, idxs: Sequence[int] = (0, 1, 2), offs: Sequence[int] = (1, 2)) -> List[Atom]:
    """Replace the read ``txn F`` inside the atom by gtxn / gtxns forms."""
    assert field_read.startswith("txn ")
    f = field_read[4:]
    out: List[Atom] = []
    forms: List[List[str]] = []
    for i in idxs:
        forms.append([f"gtxn {i} {f}"])
        forms.append([f"int {i}", f"gtxns {f}"])
    for k in offs:
        forms.append(["txn GroupIndex", f"int {k}", "+", f"gtxns {f}"])
        forms.append(["txn GroupIndex", f"int {k}", "-", f"gtxns {f}"])
        forms.append([f"int {k}", "txn GroupIndex", "+", f"gtxns {f}"])
        # k - GroupIndex: an absolute position computed from the own index, NOT the member at offset -k
        forms.append([f"int {k}", "txn GroupIndex", "-", f"gtxns {f}"])
    forms.append(["txn GroupIndex", f"gtxns {f}"])
    for form in forms:
        a: Atom = []
        for l in atom:
            if l == field_read:
                a.extend(form)
            else:
                a.append(l)
        out.append(a)
    return out


def shuffled(atom: Atom) -> List[Atom]:
    """Route an atom's result / operands through stack shuffles (soundness-only)."""
    out = [
        atom + ["dup", "pop"],
        atom + ["dup", "swap", "pop"],
        atom + ["store 0", "load 0"],
        ["int 9"] + atom + ["swap", "pop"],
        atom + ["int 0", "dig 1", "swap", "pop", "swap", "pop"],
        atom + ["int 0", "swap", "int 1", "select"],
        ["int 5"] + atom + ["cover 1", "pop"],
        ["int 5"] + atom + ["uncover 1", "pop"],
    ]
    # the constant is one of several values pushed by a single multi-push instruction
    if len(atom) == 3 and atom[1].startswith("int ") and atom[1][4:].isdigit() and not atom[0].startswith("int "):
        c = atom[1][4:]
        out.append([atom[0], f"pushints {c} 5", "pop", atom[2]])
        out.append([f"pushints 5 {c}", "swap", "pop", atom[0], atom[2]] if atom[2] in ("==", "!=") else [atom[0], f"pushints 5 {c} 3", "pop", "swap", "pop", atom[2]])
    return out


def cross_block(atom: Atom) -> List[Atom]:
    """Conditions one operand of which is produced in another basic block (`@L` is replaced
    by a fresh label per occurrence): the value crosses a block boundary on the stack."""
    free = ["txn LastValid", "int 7", ">"]
    return [
        free + ["b @L", "@L:"] + atom + ["&&"],
        free + ["b @L", "@L:"] + atom + ["||"],
        atom + ["b @L", "@L:"] + free + ["&&"],
        free + ["b @L", "@L:"] + atom + ["!", "&&"],
        free + ["b @L", "@L:"] + atom + ["||", "!"],
    ]


def describe(atom: Atom) -> str:
    return "; ".join(atom)
