"""Program spaces of the semantic checks: layered, complete enumerations of G2.

  L1  atom table      : every skeleton of size <= 2 (no subroutine) and every size-1 skeleton
                        with depth-2 condition shapes x one tracked atom from the FULL
                        alphabet in one slot (other slots: free condition)
  L2  structure       : every skeleton of size <= N (0..k subroutines) x one tracked atom
                        from the SMALL alphabet in one slot
  L3  pairs           : every skeleton of size <= M with composite conditions x two tracked
                        atoms from the SMALL alphabet in two slots
Rendering variants (subroutines before/after main, fall-off-the-end) are enumerated too.
"""
import itertools
import hashlib
from typing import Any, Dict, Iterator, List, Optional, Sequence, Set, Tuple

from mc.gen import core
from mc.gen.atoms import Atom, FREE, FREE2


def _h(s: str) -> bytes:
    """128-bit digest used to de-duplicate programs without keeping their text."""
    return hashlib.md5(s.encode()).digest()


def _fill_one(nslots: int, alphabet: Sequence[Atom], free: Atom) -> Iterator[List[Atom]]:
    for j in range(nslots):
        for a in alphabet:
            yield [a if i == j else free for i in range(nslots)]


def _fill_two(nslots: int, alphabet: Sequence[Atom], free: Atom) -> Iterator[List[Atom]]:
    for j, k in itertools.combinations(range(nslots), 2):
        for a in alphabet:
            for b in alphabet:
                yield [a if i == j else b if i == k else free for i in range(nslots)]


def _render_all(prog: Any, atoms: List[Atom], fall_off: bool, version: int, pad: Sequence[str] = ("int 7", "pop")) -> Iterator[str]:
    has_subs = bool(prog[1])
    for subs_first in (False, True) if has_subs else (False,):
        yield core.render(prog, atoms, subs_first=subs_first, version=version, pad=pad)
        if fall_off and (subs_first or not has_subs):
            yield core.render(prog, atoms, subs_first=subs_first, fall_off=True, version=version, pad=pad)


def unresolvable_constants(srcs: Sequence[str], limit: int) -> Iterator[str]:
    """Soundness-only variants: every integer constant goes through an intcblock that tealer
    cannot resolve (two intcblock instructions).  An evenly spaced subset of ``srcs``."""
    from mc.gen.rewrites import int_to_intc_unresolvable  # pylint: disable=import-outside-toplevel

    from mc.gen.rewrites import int_to_intc_decoy  # pylint: disable=import-outside-toplevel

    step = max(1, len(srcs) // max(1, limit))
    for k, s in enumerate(list(srcs)[::step]):
        r = int_to_intc_unresolvable(s) if k % 2 == 0 else int_to_intc_decoy(s)
        if r is not None:
            yield r[0]


FREES: List[Atom] = [["txn FirstValid", "int 7", ">"], ["txn LastValid", "int 7", ">"], ["txn Amount", "int 7", ">"],
                     ["txn AssetAmount", "int 7", ">"], ["txn VoteFirst", "int 7", ">"], ["txn VoteLast", "int 7", ">"]]


# L0 - rare but valid layouts that the statement grammar of core.py never produces: a conditional
# branch as the very last instruction (either polarity, target before it), a branch to the next
# line, a backward branch into an accepting block, the check after a label that is only fallen into.
LAYOUTS: List[str] = [
    "b m\nok:\nint 1\nreturn\nm:\n{ATOM}\nbnz ok",
    "b m\nok:\nint 1\nreturn\nm:\n{ATOM}\n!\nbz ok",
    "b m\nok:\nint 1\nreturn\nm:\nint 1\n{ATOM}\nbz ok",
    "{ATOM}\nbnz n\nn:\nint 1\nreturn",
    "{ATOM}\nbz n\nn:\nint 1\nreturn",
    "b m\nok:\nint 1\nreturn\nm:\n{ATOM}\nbnz ok\nerr",
    "b m\nbad:\nerr\nm:\n{ATOM}\nbz bad\nint 1\nreturn",
    "int 7\npop\nl:\n{ATOM}\nassert\nint 1\nreturn",
    "callsub s\nint 1\nreturn\ns:\n{ATOM}\nbz t\nretsub\nt:\nerr",
    "callsub s\nint 1\nreturn\ns:\n{ATOM}\nbnz t\nerr\nt:\nretsub",
]


def layouts(alphabet: Sequence[Atom], version: int = 8) -> Iterator[str]:
    for t in LAYOUTS:
        for a in alphabet:
            if any("@L" in l for l in a):
                continue
            yield f"#pragma version {version}\n" + t.replace("{ATOM}", "\n".join(a)) + "\n"


# multi-way branches as consumers of a tracked condition / of a tracked field itself (soundness spaces only: whether
# a `switch` on a comparison counts as "branched on" for the exactness claims is not settled by the properties)
MULTIWAY: List[str] = [
    "{ATOM}\nswitch La\nint 1\nreturn\nLa:\nerr",
    "{ATOM}\nswitch La\nerr\nLa:\nint 1\nreturn",
    "{ATOM}\nswitch La Lb\nerr\nLa:\nint 1\nreturn\nLb:\nint 1\nreturn",
    "{ATOM}\nswitch La Lb\nint 1\nreturn\nLa:\nerr\nLb:\nint 1\nreturn",
    "{ATOM}\nswitch La La\nerr\nLa:\nint 1\nreturn",
    "int 1\n{ATOM}\nmatch La\nint 1\nreturn\nLa:\nerr",
    "int 1\n{ATOM}\nmatch La\nerr\nLa:\nint 1\nreturn",
    "int 0\nint 1\n{ATOM}\nmatch La Lb\nerr\nLa:\nint 1\nreturn\nLb:\nerr",
    "int 0\nint 1\n{ATOM}\nmatch La Lb\nerr\nLa:\nerr\nLb:\nint 1\nreturn",
    "callsub s\nint 1\nreturn\ns:\n{ATOM}\nswitch t\nretsub\nt:\nerr",
    "b m\nok:\nint 1\nreturn\nm:\n{ATOM}\nswitch ok ok",
]


def multiway(alphabet: Sequence[Atom], version: int = 8) -> Iterator[str]:
    for t in MULTIWAY:
        for a in alphabet:
            if any("@L" in l for l in a):
                continue
            yield f"#pragma version {version}\n" + t.replace("{ATOM}", "\n".join(a)) + "\n"


def call_chains(tracked: Atom) -> Iterator[Tuple[Any, List[Atom]]]:
    """L4 - call chains main -> S0 -> S1 with optional checks / early exits before and after each
    call and in the innermost body (callees that end the program themselves, checks that only
    happen after a call returns, ...).  Slot 0 is the tracked atom, slots 1.. are independent
    free conditions."""
    T = ("slot", 0)

    def opts(free_slot: int) -> List[Any]:
        return [(), (("assert", T),), (("if", ("slot", free_slot), "bz", (("ret1",),), None),)]

    bodies = [(), (("assert", T),), (("if", ("slot", 5), "bz", (("ret1",),), None),), (("if", ("slot", 5), "bz", (("err",),), None),),
              (("ret", T),), (("if", T, "bz", (("ret1",),), None),), (("if", T, "bnz", (("ret1",),), None),)]
    for pre0 in opts(1):
        for post0 in opts(2):
            for pre1 in opts(3):
                for post1 in opts(4):
                    for body in bodies:
                        main = pre0 + (("call", 0),) + post0
                        s0 = pre1 + (("call", 1),) + post1
                        if T not in [x for st in main + s0 + body for x in st[1:2]] and not any(st[0] == "ret" for st in body):
                            pass
                        yield (main, (s0, body)), [tracked] + FREES[:5]


def shared_callee(size: int = 4) -> Iterator[Tuple[Any, int]]:
    """L5 - two subroutines, size-4 programs over {assert, if, call, ret1}: a subroutine called
    from main and from the other subroutine (different call depths, different worklist order)."""
    o = core.Opts(kinds=("assert", "if", "call", "ret1"), cond_level=0, nsubs=2, pols=("bz",))
    yield from core.skeletons(size, o)


def counter_atom(slot: int, n: int = 2) -> Atom:
    """A condition that is true the first ``n`` times it is evaluated (a counter in scratch slot
    ``slot``): loops governed by it really iterate and then exit, so accepting runs take back edges."""
    return [f"load {slot}", "int 1", "+", "dup", f"store {slot}", f"int {n}", "<="]


def _while_slots(prog: Any) -> List[int]:
    out: List[int] = []

    def blk(b: Any) -> None:
        for st in b:
            if st[0] == "while":
                if st[1][0] == "slot":
                    out.append(st[1][1])
                blk(st[3])
            elif st[0] == "if":
                blk(st[3])
                if st[4] is not None:
                    blk(st[4])

    blk(prog[0])
    for sb in prog[1]:
        blk(sb)
    return out


def counted_loops(small: Sequence[Atom], tier: str, version: int = 8, free: Atom = FREE, max_subs: int = 1,
                  kinds: Sequence[str] = ("assert", "ret", "ret1", "err", "if", "while", "call"), pad: Sequence[str] = ("int 7", "pop"),
                  max_size: Optional[int] = None) -> Iterator[str]:
    """L6 - every skeleton with at least one loop (size <= 3 quick / 4 thorough, 0..max_subs subroutines) whose
    loop conditions are counters (each loop iterates twice, then exits) x one tracked atom of the small
    alphabet in one of the other slots (or none); subroutines before/after main; a loop that opens a
    subroutine body also with the subroutine's own label as loop header.  Soundness spaces only (a
    counter is a run-time condition, not a direct check)."""
    seen: Set[bytes] = set()
    # size 4 is the intended thorough bound; until a complete size-4 run has been triaged on the unchanged tree both
    # tiers enumerate size <= 3 (a thorough command must not raise an untriaged alarm)
    n = max_size if max_size is not None else 3
    for nsubs in range(0, max_subs + 1):
        o = core.Opts(kinds=kinds, cond_level=0, nsubs=nsubs)
        for size in range(1, n + 1):
            for prog, k in core.skeletons(size, o):
                ws = _while_slots(prog)
                if not ws:
                    continue
                others = [i for i in range(k) if i not in ws]
                fills: List[List[Atom]] = []
                base = [counter_atom(10 + i) if i in ws else free for i in range(k)]
                fills.append(base)
                alpha = small if size < n else small[:1]
                for j in others:
                    for a in alpha:
                        f = list(base)
                        f[j] = a
                        fills.append(f)
                has_subs = bool(prog[1])
                entry_variants = (False, True) if any(sb and sb[0][0] == "while" for sb in prog[1]) else (False,)
                for at in fills:
                    for subs_first in (False, True) if has_subs else (False,):
                        for el in entry_variants:
                            src = core.render(prog, at, subs_first=subs_first, version=version, entry_loop=el, pad=pad)
                            h = _h(src)
                            if h not in seen:
                                seen.add(h)
                                yield src


def layered(  # pylint: disable=too-many-arguments,too-many-locals,too-many-branches
    full: Sequence[Atom],
    small: Sequence[Atom],
    tier: str,
    fall_off: bool = True,
    version: int = 8,
    free: Atom = FREE,
    kinds: Sequence[str] = ("assert", "ret", "ret1", "err", "if", "while", "call"),
    l2_size: Optional[int] = None,
    l3: bool = True,
    max_subs: Optional[int] = None,
    pad: Sequence[str] = ("int 7", "pop"),
    l2_top_alpha: Optional[int] = None,
    chains: bool = True,
) -> Iterator[str]:
    seen: Set[bytes] = set()

    def emit(prog: Any, atoms: List[Atom], fo: bool) -> Iterator[str]:
        for s in _render_all(prog, atoms, fo, version, pad):
            h = _h(s)
            if h not in seen:
                seen.add(h)
                yield s

    # L0
    for s in layouts(full, version):
        h = _h(s)
        if h not in seen:
            seen.add(h)
            yield s
    # L1
    o0 = core.Opts(kinds=kinds, cond_level=0, nsubs=0)
    for size in (1, 2):
        for prog, k in core.skeletons(size, o0):
            if k == 0:
                continue
            for at in _fill_one(k, full, free):
                yield from emit(prog, at, fall_off)
    o2 = core.Opts(kinds=tuple(x for x in kinds if x in ("assert", "ret", "if", "while")), cond_level=2, nsubs=0)
    for prog, k in core.skeletons(1, o2):
        if k == 0:
            continue
        for at in _fill_one(k, full, free):
            yield from emit(prog, at, False)
    # L2
    n2 = l2_size if l2_size is not None else (3 if tier == "quick" else 4)
    ksubs = max_subs if max_subs is not None else 2
    for nsubs in range(0, ksubs + 1):
        o = core.Opts(kinds=kinds, cond_level=0, nsubs=nsubs)
        for size in range(1, n2 + 1):
            if tier != "quick" and size == 4:
                alpha: Sequence[Atom] = small[:2] if nsubs < 2 else small[:3]
            elif l2_top_alpha is not None and size == n2 and size >= 3:
                alpha = small[:l2_top_alpha]
            else:
                alpha = small
            for prog, k in core.skeletons(size, o):
                if k == 0:
                    continue
                for at in _fill_one(k, alpha, free):
                    yield from emit(prog, at, False)
    # L4 call chains / L5 shared callee at different depths (structure layers: one tracked atom)
    if chains and small:
        for tracked in small[:2] if tier == "quick" else small[:4]:
            for prog, ats in call_chains(tracked):
                yield from emit(prog, ats, False)
        if tier == "quick" and (max_subs is None or max_subs >= 2):
            for prog, k in shared_callee(4):
                if k == 0:
                    continue
                for j in range(k):
                    yield from emit(prog, [small[0] if i == j else FREES[i % len(FREES)] for i in range(k)], False)
    # L3
    if l3:
        o1 = core.Opts(kinds=kinds, cond_level=1, nsubs=0)
        sizes = (1,)
        for size in sizes:
            for prog, k in core.skeletons(size, o1):
                if k < 2:
                    continue
                for at in _fill_two(k, small, free):
                    yield from emit(prog, at, False)
        for nsubs in (0, 1):
            o = core.Opts(kinds=kinds, cond_level=0, nsubs=nsubs)
            for size in (2,):
                for prog, k in core.skeletons(size, o):
                    if k < 2:
                        continue
                    for at in _fill_two(k, small[: (3 if tier == "quick" else 4)], free):
                        yield from emit(prog, at, False)
