"""O2 - exact per-value reachability on the direct-check fragment (DESIGN.md 2.4).

A second, abstract transition system explored exhaustively: states are (reference block,
call stack of return blocks) under one fixed value v of a tracked *dimension*; a condition
built from reads, constants, comparisons, &&, ||, ! is evaluated exactly where v decides it
and may go either way otherwise (every other atom occurrence is an independent free
boolean).  exact(B) = { v : some state of B is forward-reachable under v and can reach an
accepting leaf under v }.
"""
from typing import Any, Callable, Dict, FrozenSet, List, Optional, Set, Tuple

from mc.asm import Line, int_value, ZERO_ADDR
from mc.machine import MAXU
from mc.refcfg import RefGraph

FREE = ("free",)
T, F = True, False
BOTH = frozenset((T, F))


class Summary:  # pylint: disable=too-few-public-methods
    """Value-independent symbolic summary of one reference block."""

    __slots__ = ("asserts", "exit", "cond", "abs_read", "need", "out_len", "depth_known", "top")

    def __init__(self) -> None:
        self.asserts: List[Any] = []
        self.exit = "fall"  # fall | b | bz | bnz | return | err | callsub | retsub | multi | end
        self.cond: Any = None
        self.abs_read = False  # contains gtxn i f / int i; gtxns f
        # stack discipline: the block consumes `need` values of the stack it is entered with and
        # leaves `out_len` values in their place; `top` is the value on top afterwards (FREE when it
        # is not produced in the block); depth_known is False after an instruction the table lacks
        self.need = 0
        self.out_len = 0
        self.depth_known = True
        self.top: Any = FREE


def summarize(g: RefGraph) -> Dict[int, Summary]:  # pylint: disable=too-many-branches,too-many-statements
    out: Dict[int, Summary] = {}
    n = len(g.lines)
    for b, ins in g.blocks.items():
        s = Summary()
        st: List[Any] = []

        def ensure(k: int, st: List[Any] = st, s: Summary = s) -> None:
            while len(st) < k:
                st.insert(0, FREE)
                s.need += 1

        def pop(st: List[Any] = st) -> Any:
            ensure(1)
            return st.pop()

        for i in ins:
            l = g.lines[i]
            op, a = l.op, l.args
            if op in ("label", "#pragma", "intcblock", "bytecblock"):
                pass
            elif op in ("int", "pushint"):
                v = int_value(a[0])
                st.append(("c", v) if v is not None else FREE)
            elif op == "pushints":
                for x in a:
                    v = int_value(x)
                    st.append(("c", v) if v is not None else FREE)
            elif op == "addr":
                st.append(("a", "ADDR:ZERO" if a[0] == ZERO_ADDR else "ADDR:" + a[0]))
            elif op in ("txn", "global"):
                st.append(("r", op, a[0]))
            elif op == "gtxn":
                s.abs_read = True
                st.append(("r", "gtxn", int(a[0]), a[1]))
            elif op == "gtxns":
                idx = pop()
                if idx[0] == "c":
                    s.abs_read = True
                st.append(("r", "gtxns", idx, a[0]))
            elif op in ("==", "!=", "<", "<=", ">", ">=", "+", "-"):
                y = pop()
                x = pop()
                st.append(("op", op, x, y))
            elif op in ("&&", "||"):
                y = pop()
                x = pop()
                st.append(("and" if op == "&&" else "or", x, y))
            elif op == "!":
                st.append(("not", pop()))
            elif op == "assert":
                s.asserts.append(pop())
            elif op == "pop":
                pop()
            elif op == "dup":
                x = pop()
                st.extend((x, x))
            elif op == "dup2":
                y = pop()
                x = pop()
                st.extend((x, y, x, y))
            elif op == "swap":
                y = pop()
                x = pop()
                st.extend((y, x))
            elif op == "store":
                pop()
            elif op in ("load", "byte", "pushbytes", "intc", "intc_0", "intc_1", "intc_2", "intc_3"):
                st.append(FREE)
            elif op == "select":
                pop()
                pop()
                pop()
                st.append(FREE)
            elif op in ("*", "/", "%"):
                pop()
                pop()
                st.append(FREE)
            elif op == "dig":
                k = int(a[0])
                ensure(k + 1)
                st.append(st[-1 - k])
            elif op == "cover":
                k = int(a[0])
                ensure(k + 1)
                x = st.pop()
                st.insert(len(st) - k, x)
            elif op == "uncover":
                k = int(a[0])
                ensure(k + 1)
                st.append(st.pop(len(st) - 1 - k))
            elif op in ("bz", "bnz"):
                s.exit = op
                s.cond = pop()
            elif op == "return":
                s.exit = "return"
                s.cond = pop()
            elif op == "err":
                s.exit = "err"
            elif op == "b":
                s.exit = "b"
            elif op == "callsub":
                s.exit = "callsub"
            elif op == "retsub":
                s.exit = "retsub"
            elif op in ("switch", "match"):
                s.exit = "multi"
                for _ in range(1 if op == "switch" else len(a) + 1):
                    pop()
            else:
                s.depth_known = False
                del st[:]
        if s.exit == "fall" and ins[-1] == n - 1:
            s.exit = "end"
            s.cond = st[-1] if st else FREE
        s.out_len = len(st)
        s.top = st[-1] if st else FREE
        out[b] = s
    return out


class Dimension:
    """What one tracked dimension reads.  ``read(node, v)`` returns the concrete value a
    read node pushes under v, or FREE when v does not decide it."""

    name = "dim"
    values: List[Any] = []

    def read(self, node: Any, v: Any) -> Any:  # pylint: disable=unused-argument
        return FREE

    def outside_claim(self, node: Any) -> bool:  # pylint: disable=unused-argument
        """A comparison the properties do not require the tool to read (upper reading: free)."""
        return False


def ev(node: Any, v: Any, dim: Dimension) -> Any:  # pylint: disable=too-many-return-statements,too-many-branches
    """Concrete value of a node under v: an int, an address token (str) or FREE."""
    k = node[0]
    if k == "c":
        return node[1]
    if k == "a":
        return node[1]
    if k == "r":
        return dim.read(node, v)
    if k == "op":
        if CONST_FREE[0] and getattr(dim, "outside_claim", None) is not None and dim.outside_claim(node):
            return FREE
        x = ev(node[2], v, dim)
        y = ev(node[3], v, dim)
        if x is FREE or y is FREE:
            return FREE
        op = node[1]
        if op in ("==", "!="):
            if isinstance(x, int) != isinstance(y, int):
                return FREE
            return int((x == y) == (op == "=="))
        if not isinstance(x, int) or not isinstance(y, int):
            return FREE
        if op == "<":
            return int(x < y)
        if op == "<=":
            return int(x <= y)
        if op == ">":
            return int(x > y)
        if op == ">=":
            return int(x >= y)
        if op == "+":
            return x + y if x + y <= MAXU else FREE
        if op == "-":
            return x - y if x >= y else FREE
        return FREE
    if k in ("and", "or", "not"):
        t = truth(node, v, dim)
        if len(t) == 1:
            return int(T in t)
        return FREE
    return FREE


# The properties read "comparisons of a governed field against constants literally and let every
# other condition go either way".  A condition computed from constants alone (`int 1; bnz L`,
# `int 0; return`) is such an other condition, but a tool that folds it is not wrong either.  The
# oracle therefore brackets: lower sets evaluate constant-only conditions, upper sets (CONST_FREE
# on) let them go either way; "must list" is demanded of the lower, "must not list" of the upper.
CONST_FREE = [False]


def has_read(node: Any) -> bool:
    if not isinstance(node, tuple) or not node:
        return False
    if node[0] == "r":
        return True
    return any(has_read(x) for x in node[1:] if isinstance(x, tuple))


def _any_node(node: Any, pred: Any) -> bool:
    if not isinstance(node, tuple) or not node:
        return False
    if node[0] == "op" and pred(node):
        return True
    return any(_any_node(x, pred) for x in node[1:] if isinstance(x, tuple))


def truth(node: Any, v: Any, dim: Dimension) -> FrozenSet[bool]:
    k = node[0]
    if CONST_FREE[0] and not has_read(node):
        return BOTH
    if k == "and":
        x = truth(node[1], v, dim)
        y = truth(node[2], v, dim)
        return frozenset(p and q for p in x for q in y)
    if k == "or":
        x = truth(node[1], v, dim)
        y = truth(node[2], v, dim)
        return frozenset(p or q for p in x for q in y)
    if k == "not":
        return frozenset(not p for p in truth(node[1], v, dim))
    closure = getattr(dim, "closure", None)
    if closure is not None:
        # relaxed evaluation (used only to attribute a known finding): the leaf may take the
        # truth value it has for any value of the closure of v
        out = set()
        for u in closure(v):
            val = ev(node, u, dim)
            if val is FREE or not isinstance(val, int):
                return BOTH
            out.add(val != 0)
        return frozenset(out)
    val = ev(node, v, dim)
    if val is FREE or not isinstance(val, int):
        return BOTH
    return frozenset((val != 0,))


class Solver:  # pylint: disable=too-many-instance-attributes
    """Explores the abstract system of one program for one dimension."""

    def __init__(self, g: RefGraph, summaries: Optional[Dict[int, Summary]] = None, end_accepts: Optional[bool] = None):
        self.g = g
        # Reaching the end of the program text approves iff exactly one non-zero value is on the
        # stack, which this abstraction does not track.  end_accepts=False (decided by E1: no
        # concrete accepting run ends that way) makes the lower reading exact; otherwise the end
        # "may accept" and the caller must not use the lower sets as a demand.
        self.end_accepts = end_accepts
        self.depth_decided = False  # the lower reading rejected something on stack depth alone
        self.avoid: Set[int] = set()  # blocks no path may pass (used by the credit clause of C09)
        self.sm = summaries if summaries is not None else summarize(g)
        self.states = 0
        self.transitions = 0
        # call sites / multi-context analysis
        self.sites: Dict[str, List[int]] = {s: g.call_sites(s) for s in g.sub_names}

    # -- helpers ----------------------------------------------------------------
    def passable(self, b: int, v: Any, dim: Dimension) -> bool:
        if b in self.avoid:
            return False
        for c in self.sm[b].asserts:
            if T not in truth(c, v, dim):
                return False
        return True

    DEPTH_CAP = 12

    def succ(self, b: int, stack: Tuple[Any, ...], depth: Optional[int], v: Any, dim: Dimension) -> Tuple[List[Tuple[int, Tuple[Any, ...], Optional[int]]], bool]:
        """(successor states, accepts_here).  A state is (block, call stack, data-stack depth at
        block entry); depth None = not tracked (saturated, or after an instruction outside the table)."""
        g, s = self.g, self.sm[b]
        ex = s.exit
        if depth is not None and depth < s.need:
            if not CONST_FREE[0]:
                self.depth_decided = True
                return [], False  # the AVM fails: pop from an empty stack
            depth = None  # upper reading: a tool need not model stack underflow
        d2: Optional[int] = None
        if depth is not None and s.depth_known:
            d2 = depth - s.need + s.out_len
            if d2 > self.DEPTH_CAP:
                d2 = None

        def end_ok(top: Any, plain: bool = False) -> bool:
            # reaching the end of the program text approves iff exactly one non-zero value is left
            if CONST_FREE[0]:
                # upper reading: a value left there is neither asserted nor branched on, so it is free,
                # and junk left on the stack puts the program outside the fragment; but every condition
                # has been consumed when a final branch / call falls off the end with an EMPTY stack:
                # that is a rejection no reading can turn into an approval
                return plain or d2 != 0
            if d2 is not None and d2 != 1:
                self.depth_decided = True
                return False
            if self.end_accepts is False:
                return False
            if top is FREE:
                return True
            return T in truth(top, v, dim)

        if ex == "err":
            return [], False
        if ex == "return":
            return [], T in truth(s.cond, v, dim) if s.cond is not None else True
        if ex == "end":
            return [], end_ok(s.cond, plain=True)
        if ex in ("bz", "bnz"):
            t = truth(s.cond, v, dim)
            last = g.blocks[b][-1]
            jump = g.label_at[g.lines[last].args[0]]
            fall = last + 1 if last + 1 < len(g.lines) else None
            out: List[Tuple[int, Tuple[Any, ...], Optional[int]]] = []
            acc = False
            take_jump = (F in t) if ex == "bz" else (T in t)
            take_fall = (T in t) if ex == "bz" else (F in t)
            if take_jump:
                out.append((jump, stack, d2))
            if take_fall:
                if fall is None:
                    acc = end_ok(s.top)
                elif (fall, stack, d2) not in out:
                    out.append((fall, stack, d2))
            return out, acc
        if ex == "callsub":
            rp = g.return_point(b)
            if len(stack) >= 8:
                return [], False
            return [(g.callee_entry(b), stack + (rp,), d2)], False
        if ex == "retsub":
            if not stack:
                return [], False
            rp = stack[-1]
            if rp is None:
                return [], end_ok(s.top)  # returns to the end of the program text
            return [(rp, stack[:-1], d2)], False
        # b / multi / fall
        outs = [(t2, stack, d2) for t2 in g.bsucc[b]]
        acc = False
        if ex == "multi" and g.blocks[b][-1] + 1 >= len(g.lines):
            acc = end_ok(s.top)  # switch/match as last instruction: no label taken
        return outs, acc

    def solve(self, v: Any, dim: Dimension) -> Tuple[Set[int], bool]:
        """Context-sensitive: blocks on some accepting abstract path under v; and whether any
        accepting path exists."""
        g = self.g
        if not g.lines:
            return set(), False
        start = (0, (), 0)
        if not self.passable(0, v, dim):
            return set(), False
        fwd: Dict[Any, List[Any]] = {}
        accepts: Set[Any] = set()
        work = [start]
        fwd[start] = []
        while work:
            st = work.pop()
            self.states += 1
            nxt, acc = self.succ(st[0], st[1], st[2], v, dim)
            if acc:
                accepts.add(st)
            for t in nxt:
                if not self.passable(t[0], v, dim):
                    continue
                self.transitions += 1
                fwd[st].append(t)
                if t not in fwd:
                    fwd[t] = []
                    work.append(t)
        # backward from accepting states
        rev: Dict[Any, List[Any]] = {}
        for s0, outs in fwd.items():
            for t in outs:
                rev.setdefault(t, []).append(s0)
        good = set(accepts)
        work2 = list(accepts)
        while work2:
            st = work2.pop()
            for p in rev.get(st, []):
                if p not in good:
                    good.add(p)
                    work2.append(p)
        return {x[0] for x in good}, bool(accepts)

    def solve_ci(self, v: Any, dim: Dimension) -> Set[int]:
        """Context-insensitive variant: retsub may continue at any return point of any call
        site of a subroutine containing the block."""
        g = self.g
        if not g.lines or not self.passable(0, v, dim):
            return set()
        rps: Dict[int, List[Any]] = {}
        for b in g.retained_blocks:
            if g.is_retsub_block(b):
                lst: List[Any] = []
                for sname in g.sub_names:
                    if b in g.sub_blocks[sname]:
                        for site in self.sites[sname]:
                            lst.append(g.return_point(site))
                rps[b] = lst
        fwd: Dict[int, List[int]] = {0: []}
        accepts: Set[int] = set()
        work = [0]
        while work:
            b = work.pop()
            self.states += 1
            ex = self.sm[b].exit
            if ex == "retsub":
                nxt: List[int] = []
                acc = False
                for rp in rps.get(b, []):
                    if rp is None:
                        acc = True
                    else:
                        nxt.append(rp)
            else:
                pairs, acc = self.succ(b, (), None, v, dim)
                nxt = [t[0] for t in pairs]
            if acc:
                accepts.add(b)
            for t in nxt:
                if not self.passable(t, v, dim):
                    continue
                self.transitions += 1
                fwd[b].append(t)
                if t not in fwd:
                    fwd[t] = []
                    work.append(t)
        rev: Dict[int, List[int]] = {}
        for s0, outs in fwd.items():
            for t in outs:
                rev.setdefault(t, []).append(s0)
        good = set(accepts)
        work2 = list(accepts)
        while work2:
            st = work2.pop()
            for p in rev.get(st, []):
                if p not in good:
                    good.add(p)
                    work2.append(p)
        return good

    def multi_context_blocks(self) -> Set[int]:
        """Blocks inside a subroutine that (itself or through a transitive caller) is entered
        from >= 2 call sites."""
        g = self.g
        multi_subs: Set[str] = set()
        for s in g.sub_names:
            if len(self.sites[s]) >= 2:
                multi_subs.add(s)
        changed = True
        while changed:
            changed = False
            for s in g.sub_names:
                if s in multi_subs:
                    continue
                for site in self.sites[s]:
                    for owner in g.owners(site):
                        if owner in multi_subs:
                            multi_subs.add(s)
                            changed = True
        out: Set[int] = set()
        for s in multi_subs:
            out |= g.sub_blocks[s]
        return out

    def const_conditions_matter(self, dim: Optional[Dimension] = None) -> bool:
        """Some condition is computed from constants alone and its literal value closes a way
        (zero anywhere, or any value at a two-way branch)."""
        if self.g.lines and self.g.lines[-1].op not in ("return", "err", "b", "retsub"):
            return True  # control can reach the end of the text: the value left there is free in the upper reading
        for b in self.g.retained_blocks:
            s = self.sm[b]
            conds = [(c, "assert") for c in s.asserts]
            if s.cond is not None and s.cond is not FREE:
                conds.append((s.cond, s.exit))
            for c, how in conds:
                if how == "end":
                    return True
                if dim is not None and _any_node(c, dim.outside_claim):
                    return True
                if has_read(c):
                    continue
                if how in ("bz", "bnz"):
                    return True
                val = ev(c, None, Dimension())
                if val is FREE or not isinstance(val, int) or val == 0:
                    return True
        return False

    def bracket_sets(self, dim: Dimension) -> Tuple[Dict[int, Set[Any]], Dict[int, Set[Any]], Dict[int, Set[Any]], Dict[int, Set[Any]], bool]:
        """(lower exact, lower CI, upper exact, upper CI, some value accepts in the upper reading)."""
        ex, ci, acc = self.exact_sets(dim)
        if not self.const_conditions_matter(dim) and not self.depth_decided:
            return ex, ci, ex, ci, acc
        CONST_FREE[0] = True
        try:
            exf, cif, accf = self.exact_sets(dim)
        finally:
            CONST_FREE[0] = False
        return ex, ci, exf, cif, accf

    def exact_sets(self, dim: Dimension) -> Tuple[Dict[int, Set[Any]], Dict[int, Set[Any]], bool]:
        """exact[b], exactCI[b] for every retained block, and 'some value accepts'."""
        ex: Dict[int, Set[Any]] = {b: set() for b in self.g.retained_blocks}
        ci: Dict[int, Set[Any]] = {b: set() for b in self.g.retained_blocks}
        any_acc = False
        need_ci = bool(self.g.sub_names)
        for v in dim.values:
            good, acc = self.solve(v, dim)
            any_acc = any_acc or acc
            for b in good:
                ex[b].add(v)
            if need_ci:
                for b in self.solve_ci(v, dim):
                    ci[b].add(v)
        if not need_ci:
            ci = {b: set(s) for b, s in ex.items()}
        return ex, ci, any_acc


# --------------------------------------------------------------------------------------------
# dimensions


class SizeDim(Dimension):
    name = "GroupSize"
    values = list(range(1, 17))

    def read(self, node: Any, v: Any) -> Any:
        if node[1] == "global" and node[2] == "GroupSize":
            return v
        return FREE


class IndexDim(Dimension):
    name = "GroupIndex"
    values = list(range(0, 16))

    def read(self, node: Any, v: Any) -> Any:
        if node[1] == "txn" and node[2] == "GroupIndex":
            return v
        return FREE


RELAX: Set[str] = set()  # oracle relaxations switched on while attributing known findings


class UintFieldDim(Dimension):
    """Own uint64 field read through ``txn F`` (Fee)."""

    def __init__(self, field: str, values: List[int]):
        self.name = field
        self.field = field
        self.values = values
        if "fee-upper-bounds-only" in RELAX and field == "Fee":
            # an analysis that keeps upper bounds only admits v whenever some larger value passes
            self.closure = lambda v: [u for u in self.values if u >= v]

    def read(self, node: Any, v: Any) -> Any:
        if node[1] == "txn" and node[2] == self.field:
            return v
        if node[1] == "global" and node[2] == "MinTxnFee":
            return 1000
        return FREE


class AddrFieldDim(Dimension):
    """Own address field read through ``txn F``; values are address tokens."""

    def __init__(self, field: str, values: List[str]):
        self.name = field
        self.field = field
        self.values = values

    def read(self, node: Any, v: Any) -> Any:
        if node[1] == "txn" and node[2] == self.field:
            return v
        if node[1] == "global" and node[2] == "ZeroAddress":
            return "ADDR:ZERO"
        if node[1] == "global" and node[2] == "CreatorAddress":
            return "ADDR:CREATOR"
        return FREE


class KindDim(Dimension):
    """Own (TypeEnum, OnCompletion, ApplicationID) triple."""

    name = "kind"

    def __init__(self, stateful: bool):
        vals = []
        for t in ([6] if stateful else [1, 2, 3, 4, 5, 6]):
            if t == 6:
                for oc in range(6):
                    for app in (0, 77):
                        vals.append((t, oc, app))
            else:
                vals.append((t, 0, 0))
        self.values = vals

    def read(self, node: Any, v: Any) -> Any:
        if node[1] == "txn":
            if node[2] == "TypeEnum":
                return v[0]
            if node[2] == "OnCompletion":
                return v[1]
            if node[2] == "ApplicationID":
                return v[2]
        return FREE

    def outside_claim(self, node: Any) -> bool:
        # ApplicationID is read as "zero / non-zero" (creation or not); a comparison with a particular
        # non-zero id says something about the kind only by arithmetic the properties do not mention
        sides = (node[2], node[3])
        if any(s[0] == "r" and s[1] == "txn" and s[2] == "ApplicationID" for s in sides):
            return any(s[0] == "c" and s[1] != 0 for s in sides)
        return False


# --------------------------------------------------------------------------------------------
# property-specific comparisons against tealer


def _tealer_blocks(case: Any) -> List[Tuple[int, Any]]:
    """(reference block leader, tealer block) pairs for every function-level block whose first
    instruction is a reference leader."""
    g = case.g
    idx_of_line = {l.lineno: i for i, l in enumerate(g.lines)}
    out = []
    for tb in case.function.blocks:
        i = idx_of_line.get(tb.entry_instr.line)
        if i is None or g.block_of[i] != i:
            continue
        # tealer block must cover exactly the reference block
        if [x.line for x in tb.instructions] != [g.lineno(j) for j in g.blocks[i]]:
            continue
        out.append((i, tb))
    return out


def end_accepts(case: Any) -> Optional[bool]:
    """Does some concrete accepting run end by reaching the end of the program text?  None when E1
    did not cover the program completely."""
    if case.ex is None or case.ex.capped:
        return None
    for r in case.accepting:
        if r.pcs and case.lines[r.pcs[-1]].op != "return":
            return True
    return False


def lower_usable(case: Any, ea: Optional[bool]) -> bool:
    """The lower sets are exact enough to be demanded: the end of the text never approves, or cannot be reached."""
    from mc.sem import can_fall_off_end  # pylint: disable=import-outside-toplevel

    return ea is False or not can_fall_off_end(case.lines)


def check_c06_exact(case: Any, item: Any, res: Any) -> None:  # pylint: disable=too-many-locals
    g = case.g
    ea = end_accepts(case)
    lo_ok = lower_usable(case, ea)
    solver = Solver(g, end_accepts=ea)
    multi = solver.multi_context_blocks()
    ex_s, _, exf_s, ci_s, _ = solver.bracket_sets(SizeDim())
    ex_i, _, exf_i, ci_i, _ = solver.bracket_sets(IndexDim())
    res.count("o2_states", solver.states)
    res.count("o2_transitions", solver.transitions)
    for rb, tb in _tealer_blocks(case):
        if rb not in ex_s:
            continue
        ctx = case.ctx(tb)
        ts, ti = set(ctx.group_sizes), set(ctx.group_indices)
        res.count("o2_block_checks")
        lo_s, hi_s = ex_s[rb], (ci_s[rb] if rb in multi else exf_s[rb])
        if lo_ok and not lo_s <= ts:
            res.violation("C06.exact.size-missing", item, block=tb.entry_instr.line, expected=sorted(lo_s), actual=sorted(ts))
        elif not ts <= hi_s:
            res.violation("C06.exact.size-extra", item, block=tb.entry_instr.line, expected=sorted(hi_s), actual=sorted(ts),
                          multi_context=rb in multi)
        cap_lo = max(lo_s) if lo_s else 0
        cap_hi = max(hi_s) if hi_s else 0
        lo_i = {i for i in ex_i[rb] if i < cap_lo}
        hi_i = {i for i in (ci_i[rb] if rb in multi else exf_i[rb]) if i < cap_hi}
        if lo_ok and not lo_i <= ti:
            res.violation("C06.exact.index-missing", item, block=tb.entry_instr.line, expected=sorted(lo_i), actual=sorted(ti))
        elif not ti <= hi_i:
            res.violation("C06.exact.index-extra", item, block=tb.entry_instr.line, expected=sorted(hi_i), actual=sorted(ti),
                          multi_context=rb in multi)


def fee_values(prog: Any) -> List[int]:
    return list(prog.uint_reps((272000,)))


def addr_values(prog: Any, field: str) -> List[str]:
    return [v[1] for v in prog.addr_reps(field)]


def check_c09_abstract(case: Any, item: Any, res: Any, single_atom: bool) -> None:
    """Credit clause and single-direct-check exactness of the fee bound (O2)."""
    g = case.g
    ea = end_accepts(case)
    lo_ok = lower_usable(case, ea)
    solver = Solver(g, end_accepts=ea)
    multi = solver.multi_context_blocks()
    dim = UintFieldDim("Fee", fee_values(case.prog))
    ex, _, exf, _, _ = solver.bracket_sets(dim)
    res.count("o2_states", solver.states)
    res.count("o2_transitions", solver.transitions)
    for rb, tb in _tealer_blocks(case):
        if rb not in ex:
            continue
        ctx = case.ctx(tb)
        res.count("o2_block_checks")
        lo = ex[rb]
        credited = ctx.max_fee_unknown or ctx.max_fee <= 272000
        if not lo_ok:
            res.count("lower_sets_not_demanded_end_of_text_may_approve")
            continue
        if credited and any(v > 272000 for v in lo):
            res.violation("C09.credit-without-constraint", item, block=tb.entry_instr.line, max_fee=ctx.max_fee,
                          unknown=ctx.max_fee_unknown, admitted=sorted(lo)[-3:])
        if not ctx.max_fee_unknown and lo and max(lo) > ctx.max_fee:
            res.violation("C09.abstract-bound-too-low", item, block=tb.entry_instr.line, max_fee=ctx.max_fee, admitted_max=max(lo))
        if single_atom and lo and rb not in multi and not ctx.max_fee_unknown:
            if not max(lo) <= ctx.max_fee <= max(exf[rb]):
                res.violation("C09.single-check-not-exact", item, block=tb.entry_instr.line, expected=max(lo), actual=ctx.max_fee)
            res.count("single_check_exact_blocks")


def check_c09_credit(case: Any, item: Any, res: Any) -> None:
    """Credit clause for every program, whatever the comparands are: a block that lies on an
    accepting path which never touches an instruction reading Fee cannot be credited with a bound
    (known <= 272000, or 'unknown but bounded')."""
    g = case.g
    ea = end_accepts(case)
    if not lower_usable(case, ea):
        res.count("lower_sets_not_demanded_end_of_text_may_approve")
        return
    solver = Solver(g, end_accepts=ea)
    solver.avoid = {b for b in g.retained_blocks if any(g.lines[i].args and g.lines[i].args[-1] == "Fee" for i in g.blocks[b])}
    if not solver.avoid:
        return
    good, _ = solver.solve(None, Dimension())
    res.count("o2_states", solver.states)
    res.count("o2_transitions", solver.transitions)
    for rb, tb in _tealer_blocks(case):
        if rb not in good:
            continue
        ctx = case.ctx(tb)
        res.count("o2_block_checks")
        if ctx.max_fee_unknown or ctx.max_fee <= 272000:
            res.violation("C09.credit-without-any-fee-comparison", item, block=tb.entry_instr.line, max_fee=ctx.max_fee,
                          unknown=ctx.max_fee_unknown)


def check_c08_converse(case: Any, item: Any, res: Any, field: str, attr: str) -> None:
    g = case.g
    ea = end_accepts(case)
    lo_ok = lower_usable(case, ea)
    solver = Solver(g, end_accepts=ea)
    multi = solver.multi_context_blocks()
    dim = AddrFieldDim(field, addr_values(case.prog, field))
    ex, _, exf, ci, _ = solver.bracket_sets(dim)
    res.count("o2_states", solver.states)
    res.count("o2_transitions", solver.transitions)
    for rb, tb in _tealer_blocks(case):
        if rb not in ex:
            continue
        av = getattr(case.ctx(tb), attr)
        res.count("o2_block_checks")
        hi = ci[rb] if rb in multi else exf[rb]
        if "ADDR:ATTACKER" not in hi and av.any_addr:
            res.violation("C08.any-address-although-excluded", item, block=tb.entry_instr.line, field=field,
                          admitted=sorted(hi), multi_context=rb in multi)
        # abstract soundness: every admitted non-zero address must be admitted by tealer
        for v in ex[rb] if lo_ok else ():
            if v == "ADDR:ZERO":
                continue
            from mc.sem import addr_admits  # pylint: disable=import-outside-toplevel
            if not addr_admits(av, ("b", v)):
                res.violation("C08.abstract-address-not-admitted", item, block=tb.entry_instr.line, field=field, value=v,
                              listed=list(av.possible_addr), any_addr=av.any_addr)
