"""Detector oracles shared by C01 / C02 / C03 / C13.

* ``dangerous(case, run, det)``  (C01, concrete): does this accepting run carry det's dangerous
  value in the governed transaction?
* ``abstract_unvalidated_walk(case, det)`` (C03, abstract): is there a walk from the entry to a
  terminating block, in the matched call/return reference graph, through blocks whose exact
  admitted sets (O2, per field independently) all admit det's dangerous value?
"""
from typing import Any, Dict, List, Optional, Set, Tuple

from mc import abstract, sem
from mc.machine import ATTACKER

DETECTORS = (
    "rekey-to",
    "can-close-account",
    "can-close-asset",
    "missing-fee-check",
    "is-updatable",
    "is-deletable",
    "unprotected-updatable",
    "unprotected-deletable",
    "group-size-check",
)


def dangerous(case: Any, run: Any, det: str) -> bool:  # pylint: disable=too-many-return-statements,too-many-branches
    for m in sem.own_views(case, run):
        if det == "rekey-to":
            if ATTACKER in sem.addr_options(case, run, m, "RekeyTo"):
                return True
        elif det == "can-close-account":
            if 1 in sem.type_options(case, run, m) and ATTACKER in sem.addr_options(case, run, m, "CloseRemainderTo"):
                return True
        elif det == "can-close-asset":
            if 4 in sem.type_options(case, run, m) and ATTACKER in sem.addr_options(case, run, m, "AssetCloseTo"):
                return True
        elif det == "missing-fee-check":
            if max(sem.fee_options(run, m)) > sem.FEE_BOUND:
                return True
        elif det in ("is-updatable", "is-deletable"):
            k = "ApplUpdateApplication" if det == "is-updatable" else "ApplDeleteApplication"
            if k in sem.kinds(case, run, m):
                return True
        elif det in ("unprotected-updatable", "unprotected-deletable"):
            k = "ApplUpdateApplication" if det == "unprotected-updatable" else "ApplDeleteApplication"
            if k in sem.kinds(case, run, m) and ATTACKER in sem.addr_options(case, run, m, "Sender"):
                return True
        elif det == "group-size-check":
            if run.env.get("GroupSize") == 16 and any(i != m for i in run.abs_reads):
                return True
    return False


# --------------------------------------------------------------------------------------------


class AbstractVerdict:
    """Per program: exact sets per dimension (computed lazily, shared by the nine detectors)."""

    def __init__(self, case: Any):
        self.case = case
        self.g = case.g
        self.solver = abstract.Solver(self.g)
        self.multi = self.solver.multi_context_blocks()
        self._sets: Dict[str, Tuple[Dict[int, Set[Any]], Dict[int, Set[Any]]]] = {}

    def sets(self, dim_name: str) -> Dict[int, Set[Any]]:
        """Upper bracket of the admitted set per block: exact, or context-insensitive on
        blocks with several calling contexts."""
        if dim_name not in self._sets:
            p = self.case.prog
            if dim_name == "size":
                dim: abstract.Dimension = abstract.SizeDim()
            elif dim_name == "fee":
                dim = abstract.UintFieldDim("Fee", abstract.fee_values(p))
            elif dim_name == "kind":
                dim = abstract.KindDim(False)  # the execution mode is not a comparison the property lets us read
            else:
                dim = abstract.AddrFieldDim(dim_name, abstract.addr_values(p, dim_name))
            _, _, ex, ci, _ = self.solver.bracket_sets(dim)
            self._sets[dim_name] = (ex, ci)
        ex, ci = self._sets[dim_name]
        return {b: (ci[b] if b in self.multi else ex[b]) for b in ex}

    def unvalidated(self, det: str) -> Set[int]:  # pylint: disable=too-many-branches
        g = self.g
        out: Set[int] = set()

        def kinds_with(pred: Any) -> Set[int]:
            s = self.sets("kind")
            return {b for b in s if any(pred(v) for v in s[b])}

        if det == "rekey-to":
            s = self.sets("RekeyTo")
            out = {b for b in s if "ADDR:ATTACKER" in s[b]}
        elif det == "can-close-account":
            s = self.sets("CloseRemainderTo")
            out = {b for b in s if "ADDR:ATTACKER" in s[b]} & kinds_with(lambda v: v[0] == 1)
        elif det == "can-close-asset":
            s = self.sets("AssetCloseTo")
            out = {b for b in s if "ADDR:ATTACKER" in s[b]} & kinds_with(lambda v: v[0] == 4)
        elif det == "missing-fee-check":
            s = self.sets("fee")
            out = {b for b in s if any(v > sem.FEE_BOUND for v in s[b])}
        elif det in ("is-updatable", "unprotected-updatable"):
            out = kinds_with(lambda v: v[0] == 6 and v[1] == 4)
        elif det in ("is-deletable", "unprotected-deletable"):
            out = kinds_with(lambda v: v[0] == 6 and v[1] == 5)
        elif det == "group-size-check":
            s = self.sets("size")
            out = {b for b in s if 16 in s[b]}
        if det.startswith("unprotected"):
            s = self.sets("Sender")
            out &= {b for b in s if "ADDR:ATTACKER" in s[b]}
        return out & g.retained_blocks

    def walk_exists(self, det: str) -> bool:
        """Walk entry -> terminating block through unvalidated blocks (matched call/return);
        group-size-check additionally needs a block with an absolute-index read on the walk."""
        g = self.g
        ok = self.unvalidated(det)
        need_abs = det == "group-size-check"
        if not g.lines or 0 not in ok:
            return False
        start = (0, (), need_abs and self.solver.sm[0].abs_read)
        seen = {start}
        work = [start]
        while work:
            b, stack, absseen = work.pop()
            ex = self.solver.sm[b].exit
            nxt: List[Tuple[int, Tuple[Any, ...]]] = []
            terminal = False
            if ex in ("return", "err", "end"):
                terminal = True
            elif ex == "callsub":
                if len(stack) < 8:
                    nxt = [(g.callee_entry(b), stack + (g.return_point(b),))]
            elif ex == "retsub":
                if stack:
                    if stack[-1] is None:
                        terminal = True
                    else:
                        nxt = [(stack[-1], stack[:-1])]
            else:
                nxt = [(t, stack) for t in g.bsucc[b]]
                if ex in ("bz", "bnz", "multi", "fall") and g.blocks[b][-1] + 1 >= len(g.lines) and ex != "b":
                    terminal = terminal or ex in ("bz", "bnz", "multi")
            if terminal and (absseen or not need_abs):
                return True
            for t, st in nxt:
                if t not in ok:
                    continue
                key = (t, st, absseen or (need_abs and self.solver.sm[t].abs_read))
                if key not in seen:
                    seen.add(key)
                    work.append(key)
        return False
