"""Model-checking machinery for crytic/tealer (see /verif/DESIGN.md)."""
