"""Reference AVM for the modelled fragment + explorer E1 (lazy input binding).

Written from the AVM specification (DESIGN.md Appendix A); consumes mc.asm lines only.
``explore(program)`` enumerates every execution of the program over the region quotient of
its inputs: an input is bound (branching over its representatives) the first time an
instruction reads it; inputs never read stay unbound and stand for all their values.
"""
from typing import Any, Callable, Dict, List, Optional, Set, Tuple

from mc.asm import Line, int_value, tokenize, ZERO_ADDR

MAXU = (1 << 64) - 1
HORIZON = 2000
MAX_CALL_DEPTH = 8

ZERO = ("b", "ADDR:ZERO")
CREATOR = ("b", "ADDR:CREATOR")
ATTACKER = ("b", "ADDR:ATTACKER")

ADDR_FIELDS = ("RekeyTo", "CloseRemainderTo", "AssetCloseTo", "Sender", "Receiver", "AssetReceiver")
ENUM_FIELDS = ("TypeEnum", "OnCompletion", "ApplicationID")
APP_ONLY_GLOBALS = (
    "CreatorAddress",
    "LatestTimestamp",
    "Round",
    "CurrentApplicationID",
    "CurrentApplicationAddress",
    "OpcodeBudget",
    "CallerApplicationID",
    "CallerApplicationAddress",
)
GTXN_OPS = ("gtxn", "gtxns")


class Reject(Exception):
    pass


class NeedInput(Exception):
    def __init__(self, key: Any):
        super().__init__(key)
        self.key = key


def addr(lit: str) -> Tuple[str, str]:
    if lit == ZERO_ADDR:
        return ZERO
    return ("b", "ADDR:" + lit)


class Program:  # pylint: disable=too-many-instance-attributes
    """Pre-decoded program + input domains."""

    def __init__(self, src: str, lines: Optional[List[Line]] = None):
        self.src = src
        self.lines = lines if lines is not None else tokenize(src)
        self.n = len(self.lines)
        self.label_at = {l.args[0]: i for i, l in enumerate(self.lines) if l.op == "label"}
        ops = [l.op for l in self.lines]
        self.uses_gtxn = any(o in GTXN_OPS for o in ops)
        self.stateful = any(
            l.op == "global" and l.args and l.args[0] in APP_ONLY_GLOBALS for l in self.lines
        )
        consts: Set[int] = set()
        lits: List[str] = []
        for l in self.lines:
            if l.op in ("int", "pushint"):
                v = int_value(l.args[0])
                if v is not None:
                    consts.add(v)
            elif l.op in ("intcblock", "pushints"):
                for a in l.args:
                    v = int_value(a)
                    if v is not None:
                        consts.add(v)
            elif l.op == "addr":
                if l.args[0] != ZERO_ADDR and l.args[0] not in lits:
                    lits.append(l.args[0])
        self.consts = consts
        self.addr_literals = lits
        self._uint_reps_cache: Dict[Tuple[int, ...], List[int]] = {}

    # -- domains ---------------------------------------------------------------------
    def uint_reps(self, extra_cuts: Tuple[int, ...] = ()) -> List[int]:
        """One representative per region cut out by the program's constants."""
        if extra_cuts in self._uint_reps_cache:
            return self._uint_reps_cache[extra_cuts]
        cuts = sorted(set(c for c in self.consts if 0 <= c <= MAXU) | set(extra_cuts))
        reps: List[int] = []
        prev = -1
        for c in cuts:
            if c - 1 > prev:  # open interval (prev, c) non-empty
                reps.append(c - 1)
            reps.append(c)
            prev = c
        if prev < MAXU:
            # region above the largest cut: both its smallest element and the maximum
            reps.append(prev + 1)
            if prev + 1 < MAXU:
                reps.append(MAXU)
        # regions are intervals; for "(prev,c)" the representative c-1 is kept, and 0 is
        # added so the smallest value is always tried as well.
        if 0 not in reps:
            reps.insert(0, 0)
        self._uint_reps_cache[extra_cuts] = reps
        return reps

    def addr_reps(self, field: str) -> List[Tuple[str, str]]:
        reps = [ZERO] if field != "Sender" else []
        reps += [addr(l) for l in self.addr_literals]
        reps += [CREATOR, ATTACKER]
        return reps


class Run:  # pylint: disable=too-few-public-methods
    __slots__ = ("status", "pcs", "env", "abs_reads", "why")

    def __init__(self, status: str, pcs: List[int], env: Dict, abs_reads: Set[int], why: str):
        self.status = status  # "accept" | "reject"
        self.pcs = pcs
        self.env = env
        self.abs_reads = abs_reads  # member indices read through gtxn i / int i; gtxns
        self.why = why


class Stats:  # pylint: disable=too-few-public-methods
    def __init__(self) -> None:
        self.states = 0
        self.transitions = 0
        self.bindings = 0
        self.runs = 0
        self.accepting = 0
        self.horizon_hits = 0
        self.cycles_cut = 0


class _State:  # pylint: disable=too-few-public-methods
    __slots__ = ("pc", "stack", "scratch", "calls", "intc", "pcs", "env", "abs_reads", "seen", "steps")

    def __init__(self) -> None:
        self.pc = 0
        self.stack: List[Any] = []
        self.scratch: Dict[int, Any] = {}
        self.calls: List[int] = []
        self.intc: Optional[Tuple[int, ...]] = None
        self.pcs: List[int] = []
        self.env: Dict[Any, Any] = {}
        self.abs_reads: Set[int] = set()
        self.seen: Set[Any] = set()
        self.steps = 0

    def fork(self) -> "_State":
        s = _State()
        s.pc = self.pc
        s.stack = list(self.stack)
        s.scratch = dict(self.scratch)
        s.calls = list(self.calls)
        s.intc = self.intc
        s.pcs = list(self.pcs)
        s.env = dict(self.env)
        s.abs_reads = set(self.abs_reads)
        s.seen = set(self.seen)
        s.steps = self.steps
        return s


def _uint(v: Any) -> int:
    if not isinstance(v, int):
        raise Reject("type: expected uint64")
    return v


def _pop(st: _State) -> Any:
    if not st.stack:
        raise Reject("stack underflow")
    return st.stack.pop()


class Explorer:
    """E1. ``transition_hook(src_pc, calls_before, dst_pc)`` is called on every explored
    transition (used by C04)."""

    def __init__(
        self,
        prog: Program,
        transition_hook: Optional[Callable[[int, Tuple[int, ...], int], None]] = None,
        fee_cuts: Tuple[int, ...] = (272000,),
        restrict: Optional[Dict[Any, List[Any]]] = None,
        max_runs: int = 200000,
        initial_env: Optional[Dict[Any, Any]] = None,
        group_mode: bool = False,
    ):
        self.p = prog
        self.initial_env = dict(initial_env or {})
        self.group_mode = group_mode
        self.hook = transition_hook
        self.fee_cuts = fee_cuts
        self.restrict = restrict or {}
        self.stats = Stats()
        self.max_runs = max_runs
        self.capped = False

    # -- input binding -------------------------------------------------------------------
    def _member_key(self, st: _State, member: Any, field: str) -> Any:
        return ("m", member, field)

    def _candidates(self, st: _State, key: Any) -> List[Any]:
        env = st.env
        p = self.p
        if key in self.restrict:
            return list(self.restrict[key])
        if key == "GroupSize":
            lo = 1
            if "GroupIndex" in env:
                lo = env["GroupIndex"] + 1
            return list(range(lo, 17))
        if key == "GroupIndex":
            hi = env.get("GroupSize", 16)
            return list(range(0, hi))
        _, member, field = key
        if field == "TypeEnum":
            own = member == "self" or member == env.get("GroupIndex", -1)
            if key in self.restrict:
                return list(self.restrict[key])
            if p.stateful and own:
                return [6]
            return [1, 2, 3, 4, 5, 6]
        if field == "OnCompletion":
            return [0, 1, 2, 3, 4, 5] if env[("m", member, "TypeEnum")] == 6 else [0]
        if field == "ApplicationID":
            if env[("m", member, "TypeEnum")] != 6:
                return [0]
            reps = [v for v in p.uint_reps() if v != MAXU]
            if not any(v != 0 for v in reps):
                reps.append(77)
            return reps
        if field == "CloseRemainderTo":
            return p.addr_reps(field) if env[("m", member, "TypeEnum")] == 1 else [ZERO]
        if field == "AssetCloseTo":
            return p.addr_reps(field) if env[("m", member, "TypeEnum")] == 4 else [ZERO]
        if field in ADDR_FIELDS:
            return p.addr_reps(field)
        if field == "Fee":
            return p.uint_reps(self.fee_cuts)
        if field == "GroupIndex":
            raise AssertionError("GroupIndex is not a member key")
        return p.uint_reps()

    def _read(self, st: _State, member: Any, field: str) -> Any:
        """Value of ``field`` of ``member`` (an int index, or 'self'); raises NeedInput."""
        if field == "GroupIndex":
            if member == "self":
                if "GroupIndex" not in st.env:
                    raise NeedInput("GroupIndex")
                return st.env["GroupIndex"]
            return member
        if field in ("OnCompletion", "ApplicationID", "CloseRemainderTo", "AssetCloseTo"):
            tk = ("m", member, "TypeEnum")
            if tk not in st.env:
                raise NeedInput(tk)
        key = ("m", member, field)
        if key not in st.env:
            raise NeedInput(key)
        return st.env[key]

    def _own(self, st: _State) -> Any:
        """Member id of the governed transaction."""
        if not self.p.uses_gtxn and not self.group_mode:
            return "self"
        if "GroupSize" not in st.env:
            raise NeedInput("GroupSize")
        if "GroupIndex" not in st.env:
            raise NeedInput("GroupIndex")
        return st.env["GroupIndex"]

    def _member(self, st: _State, i: int) -> int:
        if "GroupSize" not in st.env:
            raise NeedInput("GroupSize")
        if i >= st.env["GroupSize"]:
            raise Reject("gtxn index beyond group")
        return i

    # -- one instruction -------------------------------------------------------------------
    def _step(self, st: _State) -> Optional[str]:  # pylint: disable=too-many-branches,too-many-statements,too-many-return-statements
        """Execute the instruction at st.pc.  Returns a final status or None."""
        p = self.p
        if st.pc >= p.n:
            return self._terminal(st)
        l = p.lines[st.pc]
        op = l.op
        a = l.args
        stack = st.stack
        nxt = st.pc + 1
        if op in ("label", "#pragma"):
            pass
        elif op in ("int", "pushint"):
            v = int_value(a[0])
            if v is None or v > MAXU:
                raise Reject("bad int literal")
            stack.append(v)
        elif op == "pushints":
            for x in a:
                v = int_value(x)
                if v is None or v > MAXU:
                    raise Reject("bad int literal")
                stack.append(v)
        elif op == "intcblock":
            st.intc = tuple(int_value(x) for x in a)  # type: ignore
        elif op in ("intc", "intc_0", "intc_1", "intc_2", "intc_3"):
            i = int(a[0]) if op == "intc" else int(op[-1])
            if st.intc is None or i >= len(st.intc):
                raise Reject("intc out of range")
            stack.append(st.intc[i])
        elif op == "addr":
            stack.append(addr(a[0]))
        elif op in ("byte", "pushbytes"):
            stack.append(("b", "BYTES:" + " ".join(a)))
        elif op == "txn":
            if a[0] == "GroupIndex":
                stack.append(self._read(st, "self", "GroupIndex"))
            else:
                stack.append(self._read(st, self._own(st), a[0]))
        elif op == "gtxn":
            i = int(a[0])
            m = self._member(st, i)
            st.abs_reads.add(i)
            stack.append(self._read(st, m, a[1]))
        elif op == "gtxns":
            if not stack:
                raise Reject("stack underflow")
            i = _uint(stack[-1])
            if i > 255:
                raise Reject("gtxns index")
            m = self._member(st, i)
            v = self._read(st, m, a[0])
            stack.pop()
            idx_src = self._gtxns_index_source(st)
            if idx_src == "abs":
                st.abs_reads.add(i)
            stack.append(v)
        elif op == "global":
            f = a[0]
            if f == "GroupSize":
                if "GroupSize" not in st.env:
                    raise NeedInput("GroupSize")
                stack.append(st.env["GroupSize"])
            elif f == "ZeroAddress":
                stack.append(ZERO)
            elif f == "CreatorAddress":
                stack.append(CREATOR)
            elif f == "MinTxnFee":
                stack.append(1000)
            elif f == "MinBalance":
                stack.append(100000)
            elif f == "MaxTxnLife":
                stack.append(1000)
            else:
                key = ("m", "global", f)
                if key not in st.env:
                    raise NeedInput(key)
                stack.append(st.env[key])
        elif op in ("==", "!="):
            b = _pop(st)
            x = _pop(st)
            if isinstance(b, int) != isinstance(x, int):
                raise Reject("type mismatch in ==")
            r = x == b
            stack.append(int(r if op == "==" else not r))
        elif op in ("<", "<=", ">", ">="):
            b = _uint(_pop(st))
            x = _uint(_pop(st))
            r = {"<": x < b, "<=": x <= b, ">": x > b, ">=": x >= b}[op]
            stack.append(int(r))
        elif op == "&&":
            b = _uint(_pop(st))
            x = _uint(_pop(st))
            stack.append(int(x != 0 and b != 0))
        elif op == "||":
            b = _uint(_pop(st))
            x = _uint(_pop(st))
            stack.append(int(x != 0 or b != 0))
        elif op == "!":
            x = _uint(_pop(st))
            stack.append(int(x == 0))
        elif op == "+":
            b = _uint(_pop(st))
            x = _uint(_pop(st))
            if x + b > MAXU:
                raise Reject("overflow")
            stack.append(x + b)
        elif op == "-":
            b = _uint(_pop(st))
            x = _uint(_pop(st))
            if x < b:
                raise Reject("underflow")
            stack.append(x - b)
        elif op == "*":
            b = _uint(_pop(st))
            x = _uint(_pop(st))
            if x * b > MAXU:
                raise Reject("overflow")
            stack.append(x * b)
        elif op == "dup":
            x = _pop(st)
            stack.extend((x, x))
        elif op == "dup2":
            b = _pop(st)
            x = _pop(st)
            stack.extend((x, b, x, b))
        elif op == "swap":
            b = _pop(st)
            x = _pop(st)
            stack.extend((b, x))
        elif op == "pop":
            _pop(st)
        elif op == "dig":
            n = int(a[0])
            if len(stack) < n + 1:
                raise Reject("stack underflow")
            stack.append(stack[-1 - n])
        elif op == "cover":
            n = int(a[0])
            if len(stack) < n + 1:
                raise Reject("stack underflow")
            x = stack.pop()
            stack.insert(len(stack) - n, x)
        elif op == "uncover":
            n = int(a[0])
            if len(stack) < n + 1:
                raise Reject("stack underflow")
            x = stack.pop(len(stack) - 1 - n)
            stack.append(x)
        elif op == "select":
            c = _uint(_pop(st))
            b = _pop(st)
            x = _pop(st)
            stack.append(b if c != 0 else x)
        elif op == "load":
            stack.append(st.scratch.get(int(a[0]), 0))
        elif op == "store":
            st.scratch[int(a[0])] = _pop(st)
        elif op == "assert":
            if _uint(_pop(st)) == 0:
                raise Reject("assert failed")
        elif op == "err":
            raise Reject("err")
        elif op == "return":
            top = _pop(st)
            st.stack = [top]
            return self._terminal(st)
        elif op == "b":
            nxt = p.label_at[a[0]]
        elif op == "bz":
            if _uint(_pop(st)) == 0:
                nxt = p.label_at[a[0]]
        elif op == "bnz":
            if _uint(_pop(st)) != 0:
                nxt = p.label_at[a[0]]
        elif op == "switch":
            i = _uint(_pop(st))
            if i < len(a):
                nxt = p.label_at[a[i]]
        elif op == "match":
            k = len(a)
            if len(stack) < k + 1:
                raise Reject("stack underflow")
            v = stack.pop()
            cases = stack[len(stack) - k :] if k else []
            del stack[len(stack) - k :]
            for j, c in enumerate(cases):
                if isinstance(c, int) == isinstance(v, int) and c == v:
                    nxt = p.label_at[a[j]]
                    break
        elif op == "callsub":
            if len(st.calls) >= MAX_CALL_DEPTH:
                raise Reject("call depth")
            st.calls.append(st.pc + 1)
            nxt = p.label_at[a[0]]
        elif op == "retsub":
            if not st.calls:
                raise Reject("retsub with empty call stack")
            nxt = st.calls.pop()
        else:
            raise Reject(f"opcode outside the fragment: {op}")
        st.pc = nxt
        return None

    def _gtxns_index_source(self, st: _State) -> str:
        """'abs' when the gtxns at st.pc takes its index from an int-push in the preceding
        line (the property's `int i; gtxns f` form); else 'other'."""
        if st.pc == 0:
            return "other"
        prev = self.p.lines[st.pc - 1]
        if prev.op in ("int", "pushint", "intc", "intc_0", "intc_1", "intc_2", "intc_3"):
            return "abs"
        return "other"

    @staticmethod
    def _terminal(st: _State) -> str:
        if len(st.stack) == 1 and isinstance(st.stack[0], int) and st.stack[0] != 0:
            return "accept"
        raise Reject("final stack")

    # -- search ------------------------------------------------------------------------
    def explore(self) -> List[Run]:  # pylint: disable=too-many-branches
        runs: List[Run] = []
        st0 = _State()
        st0.env = dict(self.initial_env)
        work = [st0]
        stats = self.stats
        while work:
            st = work.pop()
            while True:
                if len(runs) >= self.max_runs:
                    self.capped = True
                    return runs
                pc0 = st.pc
                calls0 = tuple(st.calls) if self.hook else ()
                try:
                    if st.steps >= HORIZON:
                        stats.horizon_hits += 1
                        raise Reject("horizon")
                    status = self._step(st)
                except NeedInput as need:
                    cands = self._candidates(st, need.key)
                    stats.bindings += len(cands)
                    for v in reversed(cands[1:]):
                        s2 = st.fork()
                        s2.env[need.key] = v
                        work.append(s2)
                    if not cands:
                        runs.append(Run("reject", st.pcs, st.env, st.abs_reads, "no candidate"))
                        stats.runs += 1
                        break
                    st.env[need.key] = cands[0]
                    continue
                except Reject as rej:
                    if pc0 < self.p.n:
                        st.pcs.append(pc0)
                    runs.append(Run("reject", st.pcs, st.env, st.abs_reads, str(rej)))
                    stats.runs += 1
                    break
                st.steps += 1
                stats.transitions += 1
                stats.states += 1
                if pc0 < self.p.n:
                    st.pcs.append(pc0)
                if status is not None:
                    runs.append(Run(status, st.pcs, st.env, st.abs_reads, "ok"))
                    stats.runs += 1
                    stats.accepting += 1
                    break
                if self.hook is not None:
                    self.hook(pc0, calls0, st.pc)
                if st.pc <= pc0:
                    key = (
                        st.pc,
                        tuple(st.stack),
                        tuple(sorted(st.scratch.items())),
                        tuple(st.calls),
                        len(st.env),
                    )
                    if key in st.seen:
                        stats.cycles_cut += 1
                        runs.append(Run("reject", st.pcs, st.env, st.abs_reads, "infinite loop"))
                        stats.runs += 1
                        break
                    st.seen.add(key)
        if self.p.stateful and (self.p.uses_gtxn or self.group_mode):
            # the governed transaction of an application is an appl transaction
            runs = [
                r
                for r in runs
                if "GroupIndex" not in r.env
                or r.env.get(("m", r.env["GroupIndex"], "TypeEnum"), 6) == 6
            ]
        return runs


def explore(src: str, **kw: Any) -> Tuple[List[Run], Explorer]:
    ex = Explorer(Program(src), **kw)
    return ex.explore(), ex


def replay(src: str, env: Dict[Any, Any]) -> Run:
    """Straight interpreter loop under a fully determined valuation (no branching):
    every input the run needs must be in ``env`` (restrict = singleton domains)."""
    restrict = {k: [v] for k, v in env.items()}
    ex = Explorer(Program(src), restrict=restrict)
    runs = ex.explore()
    # inputs not in env may still branch; the caller supplies complete valuations
    return runs[0]
