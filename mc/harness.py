"""Drives the real tealer code in-process and takes canonical snapshots of its results."""
import contextlib
import io
import logging
import os
import sys
from typing import Any, Dict, List, Optional, Tuple

if os.environ.get("VERIF_REPO"):
    sys.path.insert(0, os.environ["VERIF_REPO"])

logging.disable(logging.CRITICAL)

# pylint: disable=wrong-import-position
from tealer.teal.parse_teal import parse_teal  # noqa: E402
from tealer.teal.parse_functions import construct_function  # noqa: E402
from tealer.utils.command_line.common import init_tealer_from_single_contract  # noqa: E402
from tealer.analyses.utils.stack_ast_builder import construct_stack_ast, compute_equations  # noqa: E402
from tealer.detectors import all_detectors  # noqa: E402

DETECTORS = {
    "rekey-to": all_detectors.MissingRekeyTo,
    "can-close-account": all_detectors.CanCloseAccount,
    "can-close-asset": all_detectors.CanCloseAsset,
    "missing-fee-check": all_detectors.MissingFeeCheck,
    "is-updatable": all_detectors.IsUpdatable,
    "is-deletable": all_detectors.IsDeletable,
    "unprotected-updatable": all_detectors.AnyoneCanUpdate,
    "unprotected-deletable": all_detectors.AnyoneCanDelete,
    "group-size-check": all_detectors.MissingGroupSize,
}
# instruction-reporting (optimisation) detectors: used where "every detector" matters (C14)
OTHER_DETECTORS = {
    "constant-gtxn": all_detectors.ConstantGtxn,
    "sender-access": all_detectors.SenderAccess,
    "self-access": all_detectors.SelfAccess,
}


class Captured:  # pylint: disable=too-few-public-methods
    def __init__(self) -> None:
        self.out = ""
        self.err = ""


@contextlib.contextmanager
def capture() -> Any:
    cap = Captured()
    o, e = io.StringIO(), io.StringIO()
    old = sys.stdout, sys.stderr
    sys.stdout, sys.stderr = o, e
    try:
        yield cap
    finally:
        sys.stdout, sys.stderr = old
        cap.out, cap.err = o.getvalue(), e.getvalue()


def clear_caches() -> None:
    construct_stack_ast.cache_clear()
    compute_equations.cache_clear()


def parse(src: str, name: str = "c") -> Tuple[Any, Captured]:
    with capture() as cap:
        teal = parse_teal(src, name)
    return teal, cap


def analyze(src: str, name: str = "c") -> Tuple[Any, Any, Any, Captured]:
    """(tealer, teal, function, captured) for a single contract, as `tealer detect` does."""
    clear_caches()
    with capture() as cap:
        tealer = init_tealer_from_single_contract(src, name)
    teal = tealer.contracts[name]
    function = teal.functions[name]
    return tealer, teal, function, cap


def run_detector(tealer: Any, det_name: str) -> List[List[Any]]:
    """Paths (lists of blocks) reported by one detector on a single-contract Tealer."""
    det = DETECTORS[det_name](tealer)
    with capture():
        outs = det.detect()
    paths: List[List[Any]] = []
    for o in outs:
        paths.extend(o.paths)
    return paths


def run_detector_outputs(tealer: Any, det_name: str) -> List[Any]:
    det = (DETECTORS.get(det_name) or OTHER_DETECTORS[det_name])(tealer)
    with capture():
        return list(det.detect())


def first_line(block: Any) -> int:
    return block.entry_instr.line


def blocks_by_line(blocks: List[Any]) -> Dict[int, Any]:
    """Map source line -> block containing the instruction on that line."""
    out: Dict[int, Any] = {}
    for b in blocks:
        for ins in b.instructions:
            out[ins.line] = b
    return out


def addr_snapshot(v: Any) -> Tuple[bool, bool, Tuple[str, ...]]:
    return (bool(v.any_addr), bool(v.no_addr), tuple(sorted(v.possible_addr)))


def ctx_snapshot(ctx: Any) -> Dict[str, Any]:
    return {
        "group_sizes": tuple(sorted(ctx.group_sizes)),
        "group_indices": tuple(sorted(ctx.group_indices)),
        "transaction_types": tuple(sorted(str(t) for t in ctx.transaction_types)),
        "rekeyto": addr_snapshot(ctx.rekeyto),
        "closeto": addr_snapshot(ctx.closeto),
        "assetcloseto": addr_snapshot(ctx.assetcloseto),
        "sender": addr_snapshot(ctx.sender),
        "max_fee": ctx.max_fee,
        "max_fee_unknown": bool(ctx.max_fee_unknown),
    }


def full_ctx_snapshot(ctx: Any) -> Dict[str, Any]:
    s = ctx_snapshot(ctx)
    s["gtxn"] = [ctx_snapshot(ctx.gtxn_context(i)) for i in range(16)]
    s["abs"] = [ctx_snapshot(ctx.absolute_context(i)) for i in range(16)]
    s["rel"] = {k: ctx_snapshot(ctx.relative_context(k)) for k in range(-15, 16) if k != 0}
    return s


def graph_snapshot(teal: Any) -> Dict[str, Any]:
    blocks = []
    for b in teal.bbs:
        blocks.append(
            {
                "idx": b.idx,
                "lines": [(i.line, str(i)) for i in b.instructions],
                "next": [x.idx for x in b.next],
                "prev": [x.idx for x in b.prev],
                "sub": b.subroutine.name if b._subroutine is not None else None,  # pylint: disable=protected-access
            }
        )
    subs = {}
    for name, s in teal.subroutines.items():
        subs[name] = {
            "entry": s.entry.idx,
            "blocks": sorted(x.idx for x in s.blocks),
            "exit": sorted(x.idx for x in s.exit_blocks),
            "callers": [x.idx for x in s.caller_blocks],
            "return_points": [x.idx for x in s.return_point_blocks],
        }
    return {
        "blocks": blocks,
        "subs": subs,
        "main": sorted(x.idx for x in teal.main.blocks),
        "instructions": [(i.line, str(i)) for i in teal.instructions],
    }
