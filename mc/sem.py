"""Shared engine of the semantic checks: one program -> tealer contexts + all E1 runs,
and the 'context admits run' predicates of C06-C10 / dangerous-value predicates of C01."""
from typing import Any, Dict, Iterable, List, Optional, Set, Tuple

from mc.asm import tokenize
from mc.machine import ATTACKER, CREATOR, Explorer, MAXU, Program, Run, ZERO
from mc.refcfg import RefGraph

FEE_BOUND = 272000


class Case:  # pylint: disable=too-many-instance-attributes,too-few-public-methods
    """A program analysed by tealer and explored by E1."""

    def __init__(self, src: str, explore: bool = True, max_runs: int = 100000, restrict: Optional[Dict] = None):
        from mc import harness  # pylint: disable=import-outside-toplevel

        self.src = src
        self.lines = tokenize(src)
        self.g = RefGraph(self.lines)
        self.prog = Program(src, self.lines)
        self.tealer, self.teal, self.function, self.cap = harness.analyze(src)
        self.main_map: Dict[int, Any] = harness.blocks_by_line(self.function.main.blocks)
        self.sub_map: Dict[int, Any] = {}
        for sub in self.function.subroutines.values():
            self.sub_map.update(harness.blocks_by_line(sub.blocks))
        self.runs: List[Run] = []
        self.ex: Optional[Explorer] = None
        if explore:
            self.ex = Explorer(self.prog, max_runs=max_runs, restrict=restrict)
            self.runs = self.ex.explore()
        self.accepting = [r for r in self.runs if r.status == "accept"]

    def ctx(self, block: Any) -> Any:
        return self.function.transaction_context(block)

    def visited(self, run: Run) -> List[Any]:
        """tealer blocks (function level) the run passes through, in first-visit order."""
        out: List[Any] = []
        seen: Set[int] = set()
        depth = 0
        for pc in run.pcs:
            l = self.lines[pc]
            b = (self.main_map if depth == 0 else self.sub_map).get(l.lineno)
            if b is not None and id(b) not in seen:
                seen.add(id(b))
                out.append(b)
            if l.op == "callsub":
                depth += 1
            elif l.op == "retsub":
                depth -= 1
        return out

    def block_walk(self, run: Run) -> Tuple[Tuple[int, int], ...]:
        """(first line, depth) of the tealer blocks in execution order (with repeats)."""
        out: List[Tuple[int, int]] = []
        depth = 0
        prev = None
        for pc in run.pcs:
            l = self.lines[pc]
            b = (self.main_map if depth == 0 else self.sub_map).get(l.lineno)
            if b is not None:
                key = (b.entry_instr.line, depth)
                if prev is None or l.lineno == b.entry_instr.line or key != prev:
                    out.append(key)
                prev = key
            if l.op == "callsub":
                depth += 1
            elif l.op == "retsub":
                depth -= 1
        return tuple(out)

    def stats_into(self, res: Any) -> None:
        if self.ex is not None:
            st = self.ex.stats
            res.count("states", st.states)
            res.count("transitions", st.transitions)
            res.count("runs", st.runs)
            res.count("accepting_runs", st.accepting)
            res.count("horizon_hits", st.horizon_hits)
            res.count("cycles_cut", st.cycles_cut)
            if self.ex.capped:
                res.count("capped_programs")


# --------------------------------------------------------------------------------------------
# governed-transaction values of a run


def own_views(case: Case, run: Run) -> List[Any]:
    """Member ids the governed transaction may have in this run ('self' when the program
    cannot observe positions; else every index consistent with the bound inputs)."""
    if not case.prog.uses_gtxn:
        return ["self"]
    g = run.env.get("GroupIndex")
    if g is not None:
        return [g]
    size = run.env.get("GroupSize")
    out = []
    for cand in range(0, size if size is not None else 16):
        if case.prog.stateful and run.env.get(("m", cand, "TypeEnum"), 6) != 6:
            continue
        out.append(cand)
    return out


def value_of(run: Run, m: Any, field: str) -> Tuple[bool, Any]:
    key = ("m", m, field)
    if key in run.env:
        return True, run.env[key]
    return False, None


def size_index_pairs(run: Run) -> List[Tuple[int, int]]:
    s = run.env.get("GroupSize")
    g = run.env.get("GroupIndex")
    sizes = [s] if s is not None else list(range(1, 17))
    out = []
    for sz in sizes:
        for gi in [g] if g is not None else list(range(0, sz)):
            if gi < sz:
                out.append((sz, gi))
    return out


def type_options(case: Case, run: Run, m: Any, own: bool = True) -> List[int]:
    bound, t = value_of(run, m, "TypeEnum")
    if bound:
        return [t]
    return [6] if (case.prog.stateful and own) else [1, 2, 3, 4, 5, 6]


def kinds(case: Case, run: Run, m: Any, own: bool = True) -> Set[str]:
    """Detector-relevant kinds member m may have in this run
    (Pay, Axfer, ApplUpdateApplication, ApplDeleteApplication)."""
    out: Set[str] = set()
    for t in type_options(case, run, m, own):
        if t == 1:
            out.add("Pay")
        elif t == 4:
            out.add("Axfer")
        elif t == 6:
            ba, app = value_of(run, m, "ApplicationID")
            if ba and app == 0:
                # an application *creation*: whether it can carry UpdateApplication /
                # DeleteApplication is not something the property settles - nothing is demanded
                continue
            b, oc = value_of(run, m, "OnCompletion")
            if not b:
                out |= {"ApplUpdateApplication", "ApplDeleteApplication"}
            elif oc == 4:
                out.add("ApplUpdateApplication")
            elif oc == 5:
                out.add("ApplDeleteApplication")
    return out


def addr_options(case: Case, run: Run, m: Any, field: str, own: bool = True) -> List[Any]:
    """Values member m's address field may have in this run."""
    b, v = value_of(run, m, field)
    if b:
        return [v]
    types = type_options(case, run, m, own)
    if field == "CloseRemainderTo" and 1 not in types:
        return [ZERO]
    if field == "AssetCloseTo" and 4 not in types:
        return [ZERO]
    return case.prog.addr_reps(field)


def fee_options(run: Run, m: Any) -> List[int]:
    b, v = value_of(run, m, "Fee")
    if b:
        return [v]
    return [0, MAXU]


# --------------------------------------------------------------------------------------------
# abstract values


def addr_admits(av: Any, value: Any) -> bool:
    """Does tealer's AddrFieldValue admit the concrete address value?"""
    if av.any_addr:
        return True
    for p in av.possible_addr:
        if p.startswith("SOME_ADDRESS"):
            return True  # a single address tealer cannot name: outside the claim
        if value == CREATOR and p == "CREATOR_ADDRESS":
            return True
        if value[1] == "ADDR:" + p:
            return True
    return False


def kinds_of(ctx: Any) -> Set[str]:
    return set(str(t) for t in ctx.transaction_types)


# --------------------------------------------------------------------------------------------
# all main-context soundness clauses (C06-C09) for one run and a set of blocks with contexts


def soundness_problems(case: Any, run: Run, blocks: List[Any], ctx_of: Any) -> List[Tuple[str, Dict[str, Any]]]:
    """[(clause, detail)] for every block in ``blocks`` whose context does not admit the run."""
    out: List[Tuple[str, Dict[str, Any]]] = []
    pairs = size_index_pairs(run)
    sizes = {s for s, _ in pairs}
    idxs = {g for _, g in pairs}
    views = own_views(case, run)
    for b in blocks:
        ctx = ctx_of(b)
        line = b.entry_instr.line
        if sizes - set(ctx.group_sizes):
            out.append(("size-missing", {"block": line, "missing": sorted(sizes - set(ctx.group_sizes))}))
        if idxs - set(ctx.group_indices):
            out.append(("index-missing", {"block": line, "missing": sorted(idxs - set(ctx.group_indices))}))
        for m in views:
            need = kinds(case, run, m)
            if need - kinds_of(ctx):
                out.append(("kind-missing", {"block": line, "missing": sorted(need - kinds_of(ctx))}))
            for f, attr in (("RekeyTo", "rekeyto"), ("CloseRemainderTo", "closeto"), ("AssetCloseTo", "assetcloseto"), ("Sender", "sender")):
                av = getattr(ctx, attr)
                for v in addr_options(case, run, m, f):
                    if v != ZERO and not addr_admits(av, v):
                        out.append(("address-not-admitted", {"block": line, "field": f, "value": v[1]}))
            top = max(fee_options(run, m))
            if not ctx.max_fee_unknown and top > ctx.max_fee:
                out.append(("fee-above-bound", {"block": line, "fee": top, "max_fee": ctx.max_fee}))
    return out


def can_fall_off_end(lines: Any) -> bool:
    """True iff control can reach the end of the program text (approval then depends on the value
    left on the stack, which is neither an asserted nor a branched-on condition)."""
    return not lines or lines[-1].op not in ("return", "err", "b", "retsub")
