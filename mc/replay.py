"""./check <ID> --replay <file>: re-run exactly one recorded case against the current tree,
without the generators or the pool.  Exit 1 iff a violation of the recorded kind (at the
recorded place) is still produced, 0 otherwise."""
import importlib
import json
import os
import sys
import tempfile

from mc import runner
from mc.findings import place_of


def main(argv):
    prop, path = argv[0], argv[1]
    with open(path, encoding="utf-8") as f:
        rec = json.load(f)
    mod = importlib.import_module("mc.checks." + prop.lower())
    scratch = runner.scratch_dir()
    os.environ["TEALER_ROOT_OUTPUT_DIR"] = os.path.join(scratch, "out")
    try:
        if prop == "C14":
            bpath = os.path.join(scratch, "baselines.pkl")
            os.environ["C14_BASELINES"] = bpath
            mod.compute_baselines(bpath, len(mod.POOL))
        init = getattr(mod, "worker_init", None)
        if init:
            init()
        item = rec["item"]
        if isinstance(item, list):
            item = tuple(item)
        res = runner.Result()
        mod.worker(item, res)
        same = [v for v in res.violations if v["kind"] == rec["kind"] and place_of(v) == place_of(rec)]
        other = [v for v in res.violations if v not in same]
        for v in same:
            print(f"VIOLATION property={prop} replay={path}")
            print(f"  kind={v['kind']} detail={json.dumps(v['detail'], default=str)[:800]}")
        for v in other[:5]:
            print(f"  (other violation on this case: {v['kind']})")
        if res.errors:
            print("HARNESS-ERROR:", res.errors[0])
            return 2
        if not same:
            print(f"[{prop}] replay: the recorded violation ({rec['kind']}) does not reproduce on the current tree")
        return 1 if same else 0
    finally:
        import shutil

        shutil.rmtree(scratch, ignore_errors=True)


if __name__ == "__main__":
    sys.exit(main(sys.argv[1:]))
