"""C04 - the CFG is well-formed and over-approximates real control flow.

Enumerated: G1 raw programs (all of them: dead code, back edges, branch/call last, branch to
next line).  Oracle: (a) every concrete transition explored by E1 is an edge of tealer's
graph (parse level and function level); (b) structure against the reference graph.
"""
import sys
import time
from typing import Any, Dict, List, Tuple

from mc import runner
from mc.asm import tokenize
from mc.gen import raw
from mc.machine import Explorer, Program
from mc.refcfg import RefGraph

PROP = "C04"


def items(tier: str) -> List[str]:
    out: List[str] = []
    if tier == "quick":
        out.extend(raw.space(4, 2))
        out.extend(raw.programs(5, 2, raw.PLAIN_SMALL))
        out.extend(raw.programs(3, 2, multi=True))
        out.extend(s for s in raw.programs(4, 2, raw.PLAIN_SMALL, multi=True) if "switch" in s or "match" in s)
        out.extend(raw.dead_code())
        out.extend(raw.sub_bodies(5))
    else:
        out.extend(raw.dead_code())
        out.extend(raw.sub_bodies(7))
        out.extend(raw.space(5, 2))
        out.extend(raw.programs(6, 2, raw.PLAIN_SMALL))
        out.extend(raw.space(4, 3))
        out.extend(raw.space(4, 2, multi=True))
    seen = set()
    uniq = []
    for s in out:
        if s not in seen:
            seen.add(s)
            uniq.append(s)
    return uniq


def worker_init() -> None:
    from mc import harness  # noqa: F401  pylint: disable=import-outside-toplevel,unused-import


def structure(src: str, g: RefGraph, teal: Any, res: runner.Result, tag: str = "") -> Dict[int, Any]:  # pylint: disable=too-many-branches,too-many-locals,too-many-statements
    """Structural part (b).  Returns line -> block map."""
    lines = g.lines
    idx_of_line = {l.lineno: i for i, l in enumerate(lines)}
    retained = [g.lineno(i) for i in g.retained_ins]
    got = [i.line for i in teal.instructions]
    if got != retained:
        res.violation("C04.instructions-not-retained-set" + tag, src, expected=retained, actual=got)
    bbs = list(teal.bbs)
    bbset = set(map(id, bbs))
    flat: List[int] = []
    line2block: Dict[int, Any] = {}
    for b in sorted(bbs, key=lambda x: x.entry_instr.line):
        for k, ins in enumerate(b.instructions):
            flat.append(ins.line)
            line2block[ins.line] = b
            if ins.bb is not b:
                res.violation("C04.instruction-bb-mismatch" + tag, src, line=ins.line)
            i = idx_of_line.get(ins.line)
            if i is None:
                res.violation("C04.unknown-line" + tag, src, line=ins.line)
                continue
            op = lines[i].op
            if k > 0:
                prev_i = idx_of_line.get(b.instructions[k - 1].line)
                if prev_i is None or prev_i + 1 != i:
                    res.violation("C04.block-not-contiguous" + tag, src, line=ins.line)
                if i in g.jump_targets or (op == "label" and lines[i].args[0] in g.callsub_targets):
                    res.violation("C04.block-entered-in-the-middle" + tag, src, line=ins.line)
            if k < len(b.instructions) - 1:
                if op in ("b", "bz", "bnz", "switch", "match", "callsub", "retsub", "return", "err"):
                    res.violation("C04.block-left-in-the-middle" + tag, src, line=ins.line)
    if flat != retained:
        res.violation("C04.blocks-do-not-partition-retained" + tag, src, expected=retained, actual=flat)
    if [b.entry_instr.line for b in bbs] != sorted(b.entry_instr.line for b in bbs):
        res.count("note_bbs_not_listed_in_source_order")
    for b in bbs:
        for lst, name in ((b.next, "next"), (b.prev, "prev")):
            if len(set(map(id, lst))) != len(lst):
                res.violation("C04.duplicate-in-" + name + tag, src, block=b.entry_instr.line)
            for x in lst:
                if id(x) not in bbset:
                    res.violation(
                        "C04.names-block-outside-graph" + tag,
                        src,
                        block=b.entry_instr.line,
                        which=name,
                        outside=x.entry_instr.line,
                    )
        for x in b.next:
            if not any(y is b for y in x.prev):
                res.violation("C04.next-not-mirrored" + tag, src, block=b.entry_instr.line, succ=x.entry_instr.line)
        for x in b.prev:
            if not any(y is b for y in x.next):
                res.violation("C04.prev-not-mirrored" + tag, src, block=b.entry_instr.line, pred=x.entry_instr.line)
        # successor list against the reference graph
        li = idx_of_line.get(b.instructions[-1].line)
        if li is None:
            continue
        rb = g.block_of[li]
        if g.blocks[rb][-1] != li:
            continue  # reported above as left-in-the-middle / partition problem
        exp = [g.lineno(t) for t in g.bsucc[rb]]
        act = [x.entry_instr.line for x in b.next]
        op = lines[li].op
        if op in ("bz", "bnz"):
            if act != exp:
                res.violation("C04.bz-bnz-successor-order" + tag, src, block=b.entry_instr.line, expected=exp, actual=act)
        elif sorted(act) != sorted(exp):
            kind = "C04.missing-edge" if set(exp) - set(act) else "C04.extra-edge"
            res.violation(kind + tag, src, block=b.entry_instr.line, expected=exp, actual=act)
    return line2block


def harness_blocks_by_line(blocks: List[Any]) -> Dict[int, Any]:
    out: Dict[int, Any] = {}
    for b in blocks:
        for ins in b.instructions:
            out[ins.line] = b
    return out


def simulate(src: str, prog: Program, g: RefGraph, line2block: Dict[int, Any], res: runner.Result, function: Any = None) -> Tuple[int, int, int]:  # pylint: disable=too-many-locals,too-many-branches
    """Simulation part (a): every explored concrete transition is an edge."""
    lines = g.lines
    seen = set()
    tag = ".function" if function is not None else ""
    if function is not None:
        from tealer.utils.analyses import next_blocks_global  # pylint: disable=import-outside-toplevel

    main_map: Dict[int, Any] = {}
    if function is not None:
        # a function holds a copy of the main graph next to the original subroutine blocks;
        # code at call depth 0 runs in the copy, deeper code in the subroutine blocks
        main_map = harness_blocks_by_line(function.main.blocks)

    def lookup(line: int, depth: int) -> Any:
        if function is not None and depth == 0:
            return main_map.get(line)
        return line2block.get(line)

    def hook(pc0: int, calls0: Tuple[int, ...], pc1: int) -> None:
        top = calls0[-1] if calls0 else None
        key = (pc0, top, pc1, len(calls0) == 0)
        if key in seen:
            return
        seen.add(key)
        l0 = lines[pc0].lineno
        depth0 = len(calls0)
        depth1 = depth0 + (1 if lines[pc0].op == "callsub" else 0) - (1 if lines[pc0].op == "retsub" else 0)
        b0 = lookup(l0, depth0)
        if b0 is None:
            res.violation("C04.executed-instruction-not-in-graph" + tag, src, line=l0)
            return
        if pc1 >= len(lines):
            return
        l1 = lines[pc1].lineno
        b1 = lookup(l1, depth1)
        if b1 is None:
            res.violation("C04.executed-instruction-not-in-graph" + tag, src, line=l1)
            return
        if b0 is b1 and pc1 == pc0 + 1 and b0.instructions[-1].line != l0:
            return
        if b0.instructions[-1].line != l0 or b1.instructions[0].line != l1:
            res.violation("C04.transition-not-at-block-boundary" + tag, src, frm=l0, to=l1)
            return
        op = lines[pc0].op
        if function is not None:
            ok = any(x is b1 for x in next_blocks_global(function, b0))
            if ok and op == "retsub":
                site = lookup(lines[top - 1].lineno, depth1) if top is not None else None
                ok = site is not None and site.sub_return_point is b1
        elif op == "callsub":
            ok = b0.called_subroutine.entry is b1
        elif op == "retsub":
            site = line2block.get(lines[top - 1].lineno) if top is not None else None
            ok = site is not None and site.is_callsub_block and site.sub_return_point is b1
        else:
            ok = any(x is b1 for x in b0.next)
        if not ok:
            res.violation("C04.concrete-step-not-an-edge" + tag, src, frm=l0, to=l1, op=op)

    ex = Explorer(prog, transition_hook=hook, max_runs=20000)
    runs = ex.explore()
    res.count("runs", len(runs))
    res.count("accepting_runs", ex.stats.accepting)
    res.count("states", ex.stats.states)
    res.count("transitions", ex.stats.transitions)
    res.count("horizon_hits", ex.stats.horizon_hits)
    res.count("cycles_cut", ex.stats.cycles_cut)
    if ex.capped:
        res.count("capped_programs")
    res.count("edges_validated" + tag, len(seen))
    return len(seen), ex.stats.states, ex.stats.transitions


def worker(src: str, res: runner.Result) -> None:
    from mc import harness  # pylint: disable=import-outside-toplevel

    lines = tokenize(src)
    g = RefGraph(lines)
    prog = Program(src, lines)
    try:
        teal, _ = harness.parse(src)
    except BaseException as e:  # pylint: disable=broad-except
        res.violation("C04.parse-crash", src, error=repr(e))
        return
    line2block = structure(src, g, teal, res)
    nedges, _, _ = simulate(src, prog, g, line2block, res)
    # function level (Function.blocks); a crash of the analysis is C17's business
    try:
        _, teal2, function, _ = harness.analyze(src)
    except BaseException:  # pylint: disable=broad-except
        res.count("function_level_skipped_analysis_crash")
        function = None
    if function is not None:
        # Function.blocks partitions the function's instructions: no block listed twice, every
        # instruction of the main copy and of the used subroutines in exactly one listed block
        seen_ids = set()
        lines_seen: Dict[Tuple[bool, int], int] = {}
        main_ids = set(id(b) for b in function.main.blocks)
        only_callsub = g.entered_only_through_callsub()
        for b in function.blocks:
            if id(b) in seen_ids and only_callsub:
                res.violation("C04.function-block-listed-twice", src, block=b.entry_instr.line)
            seen_ids.add(id(b))
            for ins in b.instructions:
                key = (id(b) in main_ids, ins.line)
                lines_seen[key] = lines_seen.get(key, 0) + 1
        if any(v > 1 for v in lines_seen.values()) and g.entered_only_through_callsub():
            res.violation("C04.function-blocks-overlap", src, lines=sorted(k[1] for k, v in lines_seen.items() if v > 1))
        for name, sub in list(function.subroutines.items()) + [("__main__", function.main)]:
            if len(set(map(id, sub.blocks))) != len(sub.blocks):
                res.violation("C04.subroutine-block-listed-twice", src, sub=name)
        l2b = {}
        for sub in function.subroutines.values():
            l2b.update(harness.blocks_by_line(sub.blocks))
        simulate(src, prog, g, l2b, res, function=function)
    res.outcome((len(teal.bbs), tuple(tuple(x.idx for x in b.next) for b in teal.bbs)))
    if len(teal.bbs) > 1 and nedges > 0:
        res.mark_nontrivial(src)
    if len(g.retained_blocks) < len(g.blocks):
        res.count("programs_with_dead_code")
    res.sample({"program": src, "blocks": [[i.line for i in b.instructions] for b in teal.bbs]})


def main(argv: List[str]) -> int:
    tier, seed = runner.tier_and_seed(argv)
    t0 = time.time()
    its = runner.rotate(items(tier), seed)
    total = runner.execute("mc.checks.c04", "worker", its, chunk=200)
    cov = {
        "programs": len(its),
        "states": total.counters.get("states", 0),
        "transitions": total.counters.get("transitions", 0),
        "traces_validated_against_impl": total.counters.get("edges_validated", 0)
        + total.counters.get("edges_validated.function", 0),
        "exhaustive": total.counters.get("capped_programs", 0) == 0,
        "rule": "all G1 raw programs (see mc/gen/raw.py) up to the tier's line bound; non-trivial = more "
        "than one block and at least one concrete transition explored",
        "bounds": {"quick": "n<=4 full alphabet, n=5 small alphabet, n<=3 with switch/match; 2 labels",
                   "thorough": "n<=5 full, n=6 small, n<=4 with 3 labels, n<=4 with switch/match"}[tier],
    }
    return runner.finish(
        PROP, tier, seed, "model_checking", total, t0, cov,
        ["reference AVM (mc/machine.py) and reference graph (mc/refcfg.py) are the trusted base",
         "inputs: one representative per region cut out by the program's constants"],
        attribute=None,
    )


if __name__ == "__main__":
    sys.exit(main(sys.argv[1:]))
