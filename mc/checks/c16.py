"""C16 - each source line parses to the instruction it denotes, and prints back.

G4: every opcode of the v1-v8 table x every field of its field group x immediates from a
finite representative grammar x whitespace / comment layouts.  Oracle: the printed form,
tokenised by the independent tokenizer (mc/asm.py), denotes the same (opcode, immediates) as
the source line (integers by value, byte strings by decoded value), parses back to the same
instruction, and does not depend on layout.
"""
import base64
import itertools
import sys
import time
from typing import Any, Dict, List, Optional, Sequence, Set, Tuple

from mc import runner, spec
from mc.asm import split_tokens, strip_comment, parse_int, NAMED
from mc.gen.atoms import LIT1

PROP = "C16"

U64 = [0, 1, 7, 8, 255, 256, 43981, 1 << 32, (1 << 64) - 1]
U8 = [0, 1, 8, 255]
BYTES: List[Tuple[str, bytes]] = [
    ("0x0102", b"\x01\x02"),
    ("0x", b""),
    ("0xDEADbeef", b"\xde\xad\xbe\xef"),
    ("base64 AQI=", b"\x01\x02"),
    ("b64 AQI=", b"\x01\x02"),
    ("base64(AQI=)", b"\x01\x02"),
    ("b64(AQI=)", b"\x01\x02"),
    ("base64 AQI", b"\x01\x02"),
    ("base32 AEBA====", b"\x01\x02"),
    ("b32 AEBA", b"\x01\x02"),
    ("base32(AEBA)", b"\x01\x02"),
    ("b32(AEBA====)", b"\x01\x02"),
    ('"ab"', b"ab"),
    ('"a b"', b"a b"),
    ('"a//b"', b"a//b"),
    ('"a\\"b"', b'a"b'),
    ('"a\\nb"', b"a\nb"),
    ('""', b""),
    ('"base64"', b"base64"),
    # one text that is valid in both alphabets and decodes differently (a decoder must not answer
    # for the other encoding, whatever was parsed before)
    ("base64 MFRGGZDF", base64.b64decode("MFRGGZDF")),
    ("base32 MFRGGZDF", b"abcde"),
    ("b64(MFRGGZDF)", base64.b64decode("MFRGGZDF")),
    ("b32(MFRGGZDF)", b"abcde"),
    ("b64 AEBA", base64.b64decode("AEBA")),
    ('"0x0102"', b"0x0102"),
    ('"AQI="', b"AQI="),
]


def int_spellings(v: int) -> List[str]:
    out = [str(v), hex(v), "0x" + format(v, "X")]
    out.append("0" + oct(v)[2:] if v else "00")
    return out


def decode_bytes(toks: List[str]) -> Optional[Tuple[bytes, int]]:
    """Decode one byte-string literal at the start of toks -> (value, tokens consumed)."""
    t = toks[0]
    try:
        if t in ("base64", "b64"):
            return base64.b64decode(toks[1] + "=" * (-len(toks[1]) % 4)), 2
        if t in ("base32", "b32"):
            return base64.b32decode(toks[1] + "=" * (-len(toks[1]) % 8)), 2
        if t.startswith(("base64(", "b64(")) and t.endswith(")"):
            d = t[t.index("(") + 1 : -1]
            return base64.b64decode(d + "=" * (-len(d) % 4)), 1
        if t.startswith(("base32(", "b32(")) and t.endswith(")"):
            d = t[t.index("(") + 1 : -1].rstrip("=")
            return base64.b32decode(d + "=" * (-len(d) % 8)), 1
        if t.startswith(("0x", "0X")):
            return bytes.fromhex(t[2:]), 1
        if t.startswith('"') and t.endswith('"') and len(t) >= 2:
            body = t[1:-1]
            out = bytearray()
            i = 0
            while i < len(body):
                c = body[i]
                if c == "\\" and i + 1 < len(body):
                    n = body[i + 1]
                    if n == "n":
                        out.append(10)
                    elif n == "r":
                        out.append(13)
                    elif n == "t":
                        out.append(9)
                    elif n == "x" and i + 3 < len(body):
                        out.append(int(body[i + 2 : i + 4], 16))
                        i += 2
                    else:
                        out += n.encode()
                    i += 2
                else:
                    out += c.encode()
                    i += 1
            return bytes(out), 1
    except Exception:  # pylint: disable=broad-except
        return None
    return None


def denote(line: str) -> Optional[Tuple[str, Tuple[Any, ...]]]:
    """(opcode, normalised immediates) a line denotes according to the table; None if the
    line is not a well-formed instruction of the table."""
    toks = split_tokens(strip_comment(line).strip())
    if not toks:
        return None
    name = toks[0]
    if name == "method":
        return ("method", tuple(toks[1:]))
    op = spec.BY_NAME.get(name)
    if op is None:
        return None
    rest = toks[1:]
    out: List[Any] = []
    for kind in op.imms:
        if kind == "optu8":
            if rest:
                v = parse_int(rest.pop(0))
                if v is None:
                    return None
                out.append(v)
        elif kind in ("u8", "i8"):
            if not rest:
                return None
            t = rest.pop(0)
            v = parse_int(t[1:]) if (kind == "i8" and t.startswith("-")) else parse_int(t)
            if v is None:
                return None
            out.append(-v if (kind == "i8" and t.startswith("-")) else v)
        elif kind == "u64":
            if not rest:
                return None
            t = rest.pop(0)
            v = parse_int(t)
            out.append(v if v is not None else ("named", t))
        elif kind == "ints":
            while rest:
                v = parse_int(rest.pop(0))
                if v is None:
                    return None
                out.append(v)
        elif kind == "bytes1":
            if not rest:
                return None
            d = decode_bytes(rest)
            if d is None:
                return None
            out.append(d[0])
            rest = rest[d[1] :]
        elif kind == "bytess":
            while rest:
                d = decode_bytes(rest)
                if d is None:
                    return None
                out.append(d[0])
                rest = rest[d[1] :]
        elif kind == "labels":
            out += rest
            rest = []
        else:
            if not rest:
                return None
            out.append(rest.pop(0))
    if rest:
        return None
    return (name, tuple(out))


def base_lines(tier: str) -> List[str]:  # pylint: disable=too-many-branches
    out: List[str] = []
    for op in spec.OPS:
        choices: List[List[str]] = []
        for kind in op.imms:
            if kind == "optu8":
                c = ["", "0", "1", "255", "0x10"]
            elif kind == "u8":
                vals = U8 if tier != "quick" else [0, 1, 255]
                c = [str(v) for v in vals] + ["0x10", "010"]
            elif kind == "i8":
                c = ["0", "1", "-1", "-128", "127"]
            elif kind == "u64":
                c = []
                for v in U64:
                    c += int_spellings(v)
                if op.name == "int":
                    c += list(NAMED)
            elif kind == "ints":
                c = ["", "1", "0x10 010 255", "18446744073709551615 0"]
            elif kind == "bytes1":
                c = [b for b, _ in BYTES]
            elif kind == "bytess":
                c = ["", "0x01", '0x01 "a b" base64 AQI= b32(AEBA)']
            elif kind == "label":
                c = ["L0", "main_l10", "b", "int", "ab_1"]
            elif kind == "labels":
                c = ["L0", "L0 L1", "L0 L1 L0"]
            elif kind == "addr":
                c = [LIT1]
            elif kind in spec.FIELD_GROUPS:
                c = list(spec.FIELD_GROUPS[kind])
            elif kind == "ecdsa":
                c = list(spec.ECDSA)
            elif kind == "b64":
                c = list(spec.B64)
            elif kind == "json":
                c = list(spec.JSON)
            elif kind == "vrf":
                c = list(spec.VRF)
            elif kind == "blockf":
                c = list(spec.BLOCKF)
            else:
                raise AssertionError(kind)
            choices.append(c)
        # vary one immediate at a time around the first choice (keeps the product small)
        if not choices:
            out.append(op.name)
            continue
        first = [c[0] for c in choices]
        seen: Set[str] = set()
        for i, c in enumerate(choices):
            for v in c:
                imm = list(first)
                imm[i] = v
                line = " ".join([op.name] + [x for x in imm if x != ""])
                if line not in seen:
                    seen.add(line)
                    out.append(line)
    out += ['method "add(uint64,uint64)uint64"', 'method "a()void"']
    return out


LAYOUTS = [
    lambda l: l,
    lambda l: "    " + l,
    lambda l: "\t" + l,
    lambda l: l + "   ",
    lambda l: l + " // comment",
    lambda l: l + ' // a "quoted" comment',
    lambda l: "  " + l.replace(" ", "  ") if '"' not in l else "  " + l,
    lambda l: l.replace(" ", "\t") if '"' not in l else l + "\t",
    lambda l: l + " //",
    lambda l: l + " // jumps to the label below:",
    lambda l: l + " // int 1; pop // b L0",
    lambda l: l + "\t//#pragma version 2",
    lambda l: l + "\r",
]
UNKNOWN = ["foo", "txnx Fee", "int64 5", "bsqrtx", "gloadsss", "dup3", "Int 5", "global_x", "app_global_get_exx 1", "switchx L0", "pushintz 1"]


def items(tier: str) -> List[Any]:
    out: List[Any] = [("line", l) for l in base_lines(tier)]
    out += [("unknown", l) for l in UNKNOWN]
    out.append(("linenumbers", ""))
    # operation sequences: every ordered pair of base lines parsed one after the other in one process
    # (a parse must not depend on what was parsed before); one item per first line
    bl = base_lines(tier)
    out += [("pairs", l) for l in bl]
    # the same lines inside a program, through parse_teal (all passes), alone and after every other
    # line of the same opcode family
    out += [("program", l) for l in bl]
    return out


def worker_init() -> None:
    from mc import harness  # noqa: F401  pylint: disable=import-outside-toplevel,unused-import


def worker(item: Any, res: runner.Result) -> None:  # pylint: disable=too-many-locals,too-many-branches,too-many-statements
    from mc import harness  # pylint: disable=import-outside-toplevel
    from tealer.teal.instructions.parse_instruction import parse_line  # pylint: disable=import-outside-toplevel
    from tealer.teal.instructions.instructions import UnsupportedInstruction, Label  # pylint: disable=import-outside-toplevel

    kind, line = item
    if kind == "linenumbers":
        src = "\n// c\n#pragma version 8\n\n  int 1 // x\n\nL0:\n\tpop\n// only comment\n   \nint 2\nb L0\n"
        teal, _ = harness.parse(src)
        got = [(i.line, str(i)) for i in teal.instructions]
        want = [(3, "#pragma version 8"), (5, "int 1"), (7, "L0:"), (8, "pop"), (11, "int 2"), (12, "b L0")]
        res.count("line_number_checks")
        if got != want:
            res.violation("C16.line-numbers", item, expected=want, actual=got)
        teal2, _ = harness.parse(src.replace("\n", "\r\n"))
        got2 = [(i.line, str(i)) for i in teal2.instructions]
        if got2 != want:
            res.violation("C16.line-numbers", item, expected=want, actual=got2, line_endings="CRLF")
        with harness.capture():
            lab = parse_line("  my_label:   // c")
        if not isinstance(lab, Label) or str(lab) != "my_label:":
            res.violation("C16.label", item, actual=str(lab))
        for blank in ("", "   ", "\t", "// just a comment", "   // c"):
            with harness.capture():
                r = parse_line(blank)
            if r is not None:
                res.violation("C16.blank-or-comment-line-is-an-instruction", item, line=blank, actual=str(r))
        res.mark_nontrivial("linenumbers")
        res.mark_nontrivial("labels")
        return
    if kind == "unknown":
        for lay in LAYOUTS[:5]:
            l2 = lay(line)
            try:
                with harness.capture():
                    ins = parse_line(l2)
            except BaseException as e:  # pylint: disable=broad-except
                res.violation("C16.unknown-opcode-crash", item, line=l2, error=repr(e))
                continue
            res.count("lines_parsed")
            verb = " ".join(split_tokens(strip_comment(l2).strip()))
            if not isinstance(ins, UnsupportedInstruction):
                res.violation("C16.unknown-opcode-taken-for-another", item, line=l2, parsed=str(ins), cls=type(ins).__name__)
            elif ins.verbatim_line != verb or verb not in str(ins):
                res.violation("C16.unsupported-not-verbatim", item, line=l2, kept=ins.verbatim_line)
        res.mark_nontrivial(line)
        return
    if kind == "pairs":
        others = _BASE.get("lines")
        if others is None:
            others = _BASE["lines"] = base_lines(runner_tier())
            _BASE["want"] = {l: denote(l) for l in others}
        wants = _BASE["want"]
        for l2 in others:
            try:
                with harness.capture():
                    i1 = parse_line(line)
                    i2 = parse_line(l2)
                p1, p2 = str(i1), str(i2)
            except BaseException as e:  # pylint: disable=broad-except
                res.violation("C16.parse-crash", item, first=line, second=l2, error=repr(e))
                continue
            res.count("lines_parsed", 2)
            res.count("ordered_pairs")
            if _denote_cached(p1) != wants[line] or _denote_cached(p2) != wants[l2]:
                res.violation("C16.parse-depends-on-earlier-parses", item, first=line, second=l2, printed_first=p1, printed_second=p2,
                              expected=[repr(wants[line]), repr(wants[l2])])
        res.mark_nontrivial("pairs:" + line)
        return
    if kind == "program":
        want = denote(line)
        labels = sorted({t for t in split_tokens(line)[1:] if want is not None and spec.BY_NAME.get(want[0]) is not None
                         and any(k in ("label", "labels") for k in spec.BY_NAME[want[0]].imms)})
        for pre in ("", "int 1\n"):
            src = "#pragma version 8\n" + pre + line + "\n" + "".join(f"{l}:\nint 1\n" for l in labels) + "int 1\nreturn\n"
            at = 2 + pre.count("\n")
            try:
                teal, _ = harness.parse(src)
            except BaseException as e:  # pylint: disable=broad-except
                res.violation("C16.program-parse-crash", item, program=src, error=repr(e))
                continue
            res.count("programs_parsed")
            hit = [i for i in teal.instructions if i.line == at]
            # an instruction behind a terminator is pruned as unreachable: nothing to compare then
            if not hit:
                res.count("program_line_pruned")
                continue
            printed = str(hit[0])
            if _denote_cached(printed) != want:
                res.violation("C16.program-instruction-differs-from-its-line", item, program=src, line_no=at, printed=printed,
                              expected=repr(want), actual=repr(_denote_cached(printed)))
            if hit[0].source_code.strip() != line:
                res.violation("C16.source-code-not-kept", item, program=src, kept=hit[0].source_code)
        res.mark_nontrivial("program:" + line)
        return
    want = denote(line)
    if want is None:
        res.errors.append(f"G4 generated a line the table cannot read: {line!r}")
        return
    base_str: Optional[str] = None
    for li, lay in enumerate(LAYOUTS):
        l2 = lay(line)
        try:
            with harness.capture():
                ins = parse_line(l2)
        except BaseException as e:  # pylint: disable=broad-except
            res.violation("C16.parse-crash", item, line=l2, error=repr(e))
            continue
        res.count("lines_parsed")
        if ins is None or isinstance(ins, UnsupportedInstruction):
            res.violation("C16.known-opcode-unsupported", item, line=l2)
            continue
        printed = str(ins)
        if li == 0:
            base_str = printed
            got = denote(printed)
            if got is None:
                res.violation("C16.printed-form-not-valid-teal", item, line=l2, printed=printed)
            elif got != want:
                res.violation("C16.printed-form-denotes-something-else", item, line=l2, printed=printed,
                              expected=repr(want), actual=repr(got))
            try:
                with harness.capture():
                    again = parse_line(printed)
                if type(again) is not type(ins) or str(again) != printed:
                    res.violation("C16.round-trip", item, line=l2, printed=printed, reparsed=str(again), cls=type(again).__name__)
            except BaseException as e:  # pylint: disable=broad-except
                res.violation("C16.round-trip-crash", item, line=l2, printed=printed, error=repr(e))
            if ins.source_code != l2:
                res.violation("C16.source-code-not-kept", item, line=l2, kept=ins.source_code)
        elif base_str is not None and printed != base_str:
            res.violation("C16.layout-changes-instruction", item, line=l2, printed=printed, base=base_str)
        if "//" in l2 and li in (4, 5, 8, 9, 10):
            c = l2[l2.index("//") :] if '"' not in line else None
            if c is not None and ins.comment != c:
                res.violation("C16.comment-not-kept", item, line=l2, comment=ins.comment)
    res.outcome(want[0])
    res.mark_nontrivial(line)
    res.sample({"line": line, "printed": base_str})


_BASE: Dict[str, Any] = {}
_DEN: Dict[str, Any] = {}


def _denote_cached(printed: str) -> Any:
    if printed not in _DEN:
        _DEN[printed] = denote(printed)
    return _DEN[printed]


def runner_tier() -> str:
    import os  # pylint: disable=import-outside-toplevel

    return os.environ.get("VERIF_TIER_EFFECTIVE", "quick")


def main(argv: List[str]) -> int:
    tier, seed = runner.tier_and_seed(argv)
    import os  # pylint: disable=import-outside-toplevel

    os.environ["VERIF_TIER_EFFECTIVE"] = tier
    t0 = time.time()
    its = runner.rotate(items(tier), seed)
    total = runner.execute("mc.checks.c16", "worker", its, chunk=100)
    c = total.counters
    cov = {
        "evaluations": c.get("lines_parsed", 0),
        "rule": "every opcode of the v1-v8 table x every field of its group x immediate spellings (uint64 in decimal/hex/octal incl. "
        "2^64-1, named constants, 19 byte-string spellings incl. base64/base32 in four syntaxes and quoted strings with spaces, //, "
        "escapes; label names that are opcode names) x 13 whitespace/comment layouts; unknown opcodes x 5 layouts; line numbers; "
        "every ordered pair of base lines parsed one after the other in one process (history independence of parse_line); every "
        "base line inside a program through parse_teal (first and second instruction); distinct = base line; non-trivial = all",
        "ordered_pairs": c.get("ordered_pairs", 0),
        "programs_parsed": c.get("programs_parsed", 0),
        "exhaustive": True,
        "base_lines": len(its),
    }
    return runner.finish(PROP, tier, seed, "exploration", total, t0, cov,
                         ["opcode/immediate grammar of mc/spec.py + tokenizer/decoders of mc/asm.py and this file are the trusted base",
                          "`method` is a pseudo-op: round trip only"])


if __name__ == "__main__":
    sys.exit(main(sys.argv[1:]))
