"""C20 - the regex engine reports exactly the reachable occurrences.

Enumerated: G1 programs (joins, loops, dead code) x every label and `*` x patterns (every
window of 1-4 consecutive source lines, each window with one line altered, windows over
unreachable code).  Oracle: reachability on the reference instruction graph.
"""
import sys
import time
from typing import Any, Dict, List, Set, Tuple

from mc import findings, runner
from mc.gen import raw

PROP = "C20"
ALTER = {"int 0": "int 1", "int 1": "int 0", "pop": "dup", "assert": "pop", "err": "return", "return": "err", "retsub": "return",
         "txn FirstValid": "txn LastValid"}


def items(tier: str) -> List[str]:
    out: List[str] = []
    seen: Set[str] = set()
    gens = [raw.space(4, 2), raw.programs(5, 2, raw.PLAIN_SMALL)] if tier == "quick" else [raw.space(5, 2), raw.programs(6, 2, raw.PLAIN_SMALL), raw.space(4, 3)]
    for gen in gens:
        for s in gen:
            if s not in seen:
                seen.add(s)
                out.append(s)
    # longer straight-line programs with repeated instructions (overlapping matches)
    for body in (["int 1", "int 1", "int 1", "int 1", "pop", "pop", "pop"], ["La:", "int 1", "pop", "int 1", "pop", "int 1", "bnz La", "int 1", "pop"],
                 ["int 1", "bz La", "int 1", "pop", "b Lb", "La:", "int 1", "pop", "Lb:", "int 1", "pop", "int 1"],
                 ["callsub La", "int 1", "pop", "int 1", "return", "La:", "int 1", "pop", "retsub"],
                 # instructions that differ only in letter case are different instructions
                 ['byte "Vote"', "pop", 'byte "vote"', "pop", "int 1", "bnz Done", "int 1", "bnz done", "Done:", "int 1", "return", "done:", "int 0",
                  "return"],
                 ["byte 0xAB", "pop", "byte 0xab", "pop", 'method "Add(uint64)void"', "pop", 'method "add(uint64)void"', "pop", "int 1"]):
        out.append("#pragma version 8\n" + "\n".join(body) + "\n")
    # ladders: several paths reach the same code in different orders (forward jumps; with back edges in thorough)
    for s in raw.ladders(5):
        if tier != "quick" or s.count("int 5") == 2:
            out.append(s)
    if tier != "quick":
        out.extend(raw.ladders(4, False))
        out.extend(s for s in raw.ladders(5, False) if s.count("int 5") == 2)
    else:
        out.extend(s for s in raw.ladders(4, False) if s.count("int 5") <= 2)
    return out


def worker_init() -> None:
    from mc import harness  # noqa: F401  pylint: disable=import-outside-toplevel,unused-import


def worker(src: str, res: runner.Result) -> None:  # pylint: disable=too-many-locals,too-many-branches,too-many-statements
    from mc import harness  # pylint: disable=import-outside-toplevel
    from mc.asm import tokenize  # pylint: disable=import-outside-toplevel
    from mc.refcfg import RefGraph  # pylint: disable=import-outside-toplevel
    from tealer.utils.regex.regex import match_regex, parse_regex  # pylint: disable=import-outside-toplevel

    lines = tokenize(src)
    g = RefGraph(lines)
    try:
        teal, _ = harness.parse(src)
    except BaseException as e:  # pylint: disable=broad-except
        res.violation("C20.parse-crash", src, error=repr(e))
        return
    retained = set(g.retained_ins)
    n = len(lines)
    texts = [l.text for l in lines]
    # patterns
    pats: List[Tuple[str, ...]] = []
    seenp: Set[Tuple[str, ...]] = set()
    for w in (1, 2, 3, 4):
        for i in range(1, n - w + 1):  # skip the pragma line as a start
            win = tuple(texts[i : i + w])
            cands = [win]
            for k in range(w):
                if win[k] in ALTER:
                    alt = list(win)
                    alt[k] = ALTER[win[k]]
                    cands.append(tuple(alt))
            for p in cands:
                if any(t.split()[0] == "b" for t in p[:-1]):
                    continue  # `b L; L:` as 'consecutive straight-line code' is ambiguous in the statement
                if p not in seenp:
                    seenp.add(p)
                    pats.append(p)
    labels = ["*"] + sorted(g.label_at) + ["no_such_label"]
    for lab in labels:
        if lab == "*":
            start = 0 if 0 in retained else None
        elif lab in g.label_at and g.label_at[lab] in retained:
            start = g.label_at[lab]
        else:
            start = None
        reach: Set[int] = set()
        if start is not None:
            work = [start]
            reach = {start}
            while work:
                cur = work.pop()
                for t in g.succ[cur]:
                    if t not in reach:
                        reach.add(t)
                        work.append(t)
        # predecessors inside reach, for backward closure
        preds: Dict[int, List[int]] = {}
        for i in reach:
            for t in g.succ[i]:
                preds.setdefault(t, []).append(i)
        for p in pats:
            exp_matches: List[Tuple[int, ...]] = []
            for i in sorted(reach):
                cur = i
                chain: List[int] = []
                ok = True
                for k, t in enumerate(p):
                    if cur is None or texts[cur] != t:
                        ok = False
                        break
                    chain.append(cur)
                    if k + 1 < len(p):
                        cur = g.succ[cur][0] if len(g.succ[cur]) == 1 else None
                if ok:
                    exp_matches.append(tuple(lines[j].lineno for j in chain))
            text = lab + " =>\n" + "\n".join(p) + "\n"
            try:
                with harness.capture():
                    rx = parse_regex(text)
                    got_m, got_c = match_regex(teal, rx)
            except BaseException as e:  # pylint: disable=broad-except
                res.violation("C20.crash", src, label=lab, pattern=list(p), error=repr(e))
                continue
            res.count("match_calls")
            got = [tuple(i.line for i in m) for m in got_m]
            if sorted(got) != sorted(exp_matches):
                res.violation("C20.matches", src, label=lab, pattern=list(p), expected=sorted(exp_matches), actual=sorted(got))
                continue
            # covered
            starts = {idx for idx in reach if any(lines[idx].lineno == m[0] for m in exp_matches)}
            matched = {ln for m in exp_matches for ln in m}
            P: Set[int] = set()
            work = []
            for s0 in starts:
                for q in preds.get(s0, []):
                    if q not in P:
                        P.add(q)
                        work.append(q)
            while work:
                cur = work.pop()
                for q in preds.get(cur, []):
                    if q not in P:
                        P.add(q)
                        work.append(q)
            p_lines = {lines[i].lineno for i in P}
            cov = {i.line for i in got_c}
            if not cov <= p_lines:
                res.violation("C20.covered-not-on-a-path-to-a-match", src, label=lab, pattern=list(p), extra=sorted(cov - p_lines),
                              on_paths=sorted(p_lines))
            elif not (p_lines - matched) <= cov:
                res.violation("C20.covered-misses-path-instruction", src, label=lab, pattern=list(p),
                              missing=sorted(p_lines - matched - cov), covered=sorted(cov))
            if exp_matches:
                res.count("calls_with_matches")
            res.count("matches_expected", len(exp_matches))
    res.outcome((len(pats), len(labels)))
    res.mark_nontrivial(src)
    res.sample({"program": src, "patterns": [list(p) for p in pats[:4]], "labels": labels})


_ATTR = None


def attribute(entry: Any, v: Any) -> bool:
    global _ATTR  # pylint: disable=global-statement
    if _ATTR is None:
        _ATTR = findings.by_patch(worker)
    return _ATTR(entry, v)


def main(argv: List[str]) -> int:
    tier, seed = runner.tier_and_seed(argv)
    t0 = time.time()
    its = runner.rotate(items(tier), seed)
    total = runner.execute("mc.checks.c20", "worker", its, chunk=100)
    c = total.counters
    cov = {
        "programs": len(its),
        "states": c.get("match_calls", 0),
        "transitions": max(1, c.get("matches_expected", 0)),
        "traces_validated_against_impl": c.get("calls_with_matches", 0),
        "exhaustive": True,
        "rule": "all G1 programs up to the line bound x every label, `*` and a missing label x every window of 1-4 source lines and every "
        "one-line alteration of it; states = match_regex calls compared, transitions = expected matches, traces = calls with at least "
        "one match; non-trivial = all",
    }
    return runner.finish(PROP, tier, seed, "model_checking", total, t0, cov,
                         ["reference instruction graph (mc/refcfg.py) is the trusted base",
                          "patterns with a non-final `b` are not used; matched instructions may or may not be coloured as covered"])


if __name__ == "__main__":
    sys.exit(main(sys.argv[1:]))
