"""C07 - transaction-kind sets keep every approvable detector-relevant kind."""
import sys
import time
from typing import Any, List

from mc import findings, runner
from mc.gen import atoms as A
from mc.gen import spaces

PROP = "C07"
FOUR = ("Pay", "Axfer", "ApplUpdateApplication", "ApplDeleteApplication")


def alphabets(tier: str) -> Any:
    full = A.kind_atoms("full")
    small = [
        ["txn TypeEnum", "int pay", "=="],
        ["txn OnCompletion", "int UpdateApplication", "!="],
        ["txn TypeEnum", "int appl", "=="],
        ["txn OnCompletion", "int NoOp", "=="],
        ["txn ApplicationID"],
    ]
    if tier != "quick":
        small += [["int 5", "txn OnCompletion", "=="], ["txn TypeEnum", "int 4", "!="], ["txn ApplicationID", "int 0", "=="]]
    return full, small


def items(tier: str) -> List[Any]:
    full, small = alphabets(tier)
    for a in (small[0], small[1], ["txn TypeEnum", "int pay", "!="]):
        full = full + A.cross_block(a)
    out: List[Any] = [("direct", s) for s in spaces.layered(full, small, tier)]
    sh = []
    for a in small[:2] + [["txn TypeEnum", "int pay", "!="], ["txn OnCompletion", "int UpdateApplication", "=="]]:
        sh += A.shuffled(a)
    seen = set(s for _, s in out)
    for s in spaces.layered(sh, sh[:2], tier, l2_size=2, l3=False, max_subs=1, chains=False):
        if s not in seen:
            seen.add(s)
            out.append(("shuffle", s))
    # soundness-only: multi-way branches consuming a tracked condition (or the tracked field itself)
    for s in spaces.multiway(list(full) + [["txn TypeEnum"], ["txn OnCompletion"]]):
        if s not in seen:
            seen.add(s)
            out.append(("shuffle", s))
    # soundness-only: loops that really iterate (counter conditions)
    for s in spaces.counted_loops(small[:2] + [["txn TypeEnum", "int pay", "!="]], tier):
        if s not in seen:
            seen.add(s)
            out.append(("shuffle", s))
    from mc.gen import raw  # pylint: disable=import-outside-toplevel

    for atom in [["txn OnCompletion", "int UpdateApplication", "!="], ["txn TypeEnum", "int pay", "=="]]:
        for s in raw.with_atom(atom, 4 if tier == "quick" else 5):
            if s not in seen:
                seen.add(s)
                out.append(("g1a", s))
    for s in spaces.unresolvable_constants([x for m, x in out if m == "direct"], 3000 if tier == "quick" else 20000):
        if s not in seen:
            seen.add(s)
            out.append(("shuffle", s))
    return out


def worker_init() -> None:
    from mc import harness  # noqa: F401  pylint: disable=import-outside-toplevel,unused-import


def worker(item: Any, res: runner.Result) -> None:
    from mc import sem  # pylint: disable=import-outside-toplevel

    mode, src = item
    if mode == "g1a":
        from mc.asm import tokenize  # pylint: disable=import-outside-toplevel
        from mc.refcfg import RefGraph  # pylint: disable=import-outside-toplevel

        if not RefGraph(tokenize(src)).entered_only_through_callsub():
            res.count("filtered_bodies_not_entered_only_through_callsub")
            return
    try:
        case = sem.Case(src)
    except BaseException as e:  # pylint: disable=broad-except
        res.violation("C07.analysis-crash", item, error=repr(e))
        return
    case.stats_into(res)
    for run in case.accepting:
        for m in sem.own_views(case, run):
            need = sem.kinds(case, run, m)
            if not need:
                continue
            for b in case.visited(run):
                have = sem.kinds_of(case.ctx(b))
                res.count("block_run_checks")
                miss = need - have
                if miss:
                    res.violation("C07.sound.kind-missing", item, block=b.entry_instr.line, missing=sorted(miss),
                                  listed=sorted(have), env=repr(run.env))
    outcome = tuple((b.entry_instr.line, tuple(sorted(sem.kinds_of(case.ctx(b))))) for b in case.function.blocks)
    res.outcome(outcome)
    if any(0 < len(k) < 12 for _, k in outcome):
        res.mark_nontrivial(src)
    res.sample({"program": src, "kinds": [list(o) for o in outcome]})


_ATTR = None


def attribute(entry: Any, v: Any) -> bool:
    global _ATTR  # pylint: disable=global-statement
    if _ATTR is None:
        _ATTR = findings.any_of(findings.by_repair(worker, lambda it: it[-1], lambda it, s: tuple(it[:-1]) + (s,), patches=("kind-partitions",)), findings.by_patch(worker))
    return _ATTR(entry, v)


def main(argv: List[str]) -> int:
    tier, seed = runner.tier_and_seed(argv)
    t0 = time.time()
    its = runner.rotate(items(tier), seed)
    total = runner.execute("mc.checks.c07", "worker", its, chunk=40)
    c = total.counters
    cov = {
        "programs": len(its),
        "states": c.get("states", 0),
        "transitions": c.get("transitions", 0),
        "traces_validated_against_impl": c.get("block_run_checks", 0),
        "exhaustive": c.get("capped_programs", 0) == 0,
        "rule": "layered G2 spaces over TypeEnum/OnCompletion/ApplicationID atoms (==,!= x both orders x named and numeric "
        "constants, bare ApplicationID and its negation); all (TypeEnum, OnCompletion, ApplicationID) valuations a real "
        "transaction can have; non-trivial = some block has a kind set that is neither empty nor full",
    }
    return runner.finish(PROP, tier, seed, "model_checking", total, t0, cov,
                         ["reference AVM is the trusted base", "only the four kinds named by the property are demanded"])


if __name__ == "__main__":
    sys.exit(main(sys.argv[1:]))
