"""C11 - reconstructed operands equal the operands the AVM would pass.

G3: all straight-line opcode sequences up to length L over (a) one representative per
(pops, pushes) class of the v1-v8 table and (b) every stack-shuffling / multi-push opcode with
small immediates; plus the complete per-opcode table at L=1 and all &&/|| trees of depth <= 3.
Oracle: a position machine driven by the independent table mc/spec.py.
"""
import itertools
import sys
import time
from typing import Any, Dict, List, Optional, Sequence, Set, Tuple

from mc import findings, runner, spec
from mc.checks.c19 import default_imm

PROP = "C11"
CONTROL = ("b", "bz", "bnz", "callsub", "retsub", "return", "err", "switch", "match")
LAST_ONLY = ("b L0", "bz L0", "bnz L0", "callsub L0", "retsub", "return", "err", "switch L0", "switch L0 L1", "switch L0 L1 L0",
             "match L0", "match L0 L1", "match L0 L1 L0")


def op_line(op: spec.Op, imms: Optional[List[str]] = None) -> Tuple[str, List[str]]:
    if imms is None:
        imms = [x for k in op.imms for x in default_imm(k)]
    return " ".join([op.name] + imms), imms


def alphabet(tier: str) -> List[str]:
    out: List[str] = []
    classes: Dict[Tuple[int, int], str] = {}
    for op in spec.OPS:
        if op.name in CONTROL or op.name in ("intcblock", "bytecblock"):
            continue
        if callable(op.pops) or callable(op.pushes):
            continue
        line, imms = op_line(op)
        classes.setdefault((spec.pops(op, imms), spec.pushes(op, imms)), line)
    out += list(classes.values())
    rng = (0, 1, 2) if tier == "quick" else (0, 1, 2, 3, 4)
    for n in rng:
        out += [f"dig {n}", f"cover {n}", f"uncover {n}", f"popn {n}", f"dupn {n}"]
        if n > 0:
            out.append(f"bury {n}")
    out += ["dup", "dup2", "swap", "select", "pushints", "pushints 1", "pushints 1 2", "pushints 1 2 3", "pushbytess", "pushbytess 0x01",
            "pushbytess 0x01 0x02 0x03", "proto 1 1", "proto 0 2", "frame_dig -1", "frame_dig 0", "frame_bury -1", "frame_bury 0", "frame_bury 1",
            "mulw", "addw", "divmodw", "expw", "app_global_get_ex", "app_local_get_ex", "asset_holding_get AssetBalance",
            "ecdsa_pk_decompress Secp256k1", "ecdsa_pk_recover Secp256k1", "vrf_verify VrfAlgorand", "box_len", "assert",
            "txn Fee", "gtxn 0 Fee", "gtxns Fee", "int 5", "store 0", "load 0", "stores", "loads", "gtxnsas ApplicationArgs"]
    seen: Set[str] = set()
    return [x for x in out if not (x in seen or seen.add(x))]  # type: ignore


def items(tier: str) -> List[Any]:
    out: List[Any] = []
    # complete per-opcode table at L=1 (after 6 known pushes, and alone)
    for op in spec.OPS:
        variants: List[List[str]] = []
        if op.imms and op.imms[0] in ("u8",) and (callable(op.pops) or callable(op.pushes)):
            for n in range(0, 5):
                variants.append([str(n)] + [x for k in op.imms[1:] for x in default_imm(k)])
        elif op.imms and op.imms[0] == "optu8":
            variants = [[], ["0"], ["1"], ["2"]]
        elif op.imms and op.imms[0] in ("labels", "ints", "bytess"):
            base = default_imm(op.imms[0])
            for cnt in range(1 if op.imms[0] == "labels" else 0, 4):
                variants.append((base * 2)[:cnt])
        elif any(k in spec.FIELD_GROUPS for k in op.imms):
            i = [j for j, k in enumerate(op.imms) if k in spec.FIELD_GROUPS][0]
            for fname in list(spec.FIELD_GROUPS[op.imms[i]])[:3]:
                b = [default_imm(k) for k in op.imms]
                b[i] = [fname]
                variants.append([x for part in b for x in part])
        else:
            variants.append([x for k in op.imms for x in default_imm(k)])
        for imms in variants:
            line = " ".join([op.name] + imms)
            out.append(("seq", ["int 1"] * 6 + [line]))
            out.append(("seq", [line]))
    al = alphabet(tier)
    L = 3
    for n in range(1, L + 1):
        for seq in itertools.product(al, repeat=n):
            out.append(("seq", list(seq)))
    if tier != "quick":
        sub = [a for a in al if a.split()[0] in ("dig", "cover", "uncover", "bury", "popn", "dupn", "dup", "dup2", "swap", "select", "frame_bury", "txn", "==")]
        sub = [a for a in sub if not a.endswith(" 3") and not a.endswith(" 4")]
        for seq in itertools.product(sub, repeat=4):
            out.append(("seq", list(seq)))
    # last-instruction forms after every 1- and 2-prefix of a small alphabet
    small = ["int 1", "txn Fee", "dup", "swap", "pop", "dig 1"]
    for last in LAST_ONLY:
        out.append(("seq", [last]))
        for pre in itertools.product(small, repeat=2):
            out.append(("seq", list(pre) + [last]))
    # && / || expressions: every code sequence over {int 1, txn Fee, &&, ||, !} up to 7 instructions, then assert
    toks = ["int 1", "txn Fee", "&&", "||", "!"]
    for n in range(1, 7 if tier == "quick" else 8):
        for seq in itertools.product(toks, repeat=n):
            if seq[-1] in ("&&", "||"):
                out.append(("tree", list(seq)))
    out += attribution_items(tier)
    return out


def attribution_items(tier: str) -> List[Any]:
    """'A comparison is attributed to a transaction field only if that field really is its operand':
    programs whose only condition compares something that is NOT the governed transaction's
    GroupIndex / GroupSize / Fee / kind / address field but looks like it (another member's field,
    a different field of the same shape, the field plus or minus a constant), in every operand order,
    consumed by assert / bz / bnz / return.  Decided semantically: E1 explores every accepting run and
    every block passed must still admit the run's values (a misattributed comparison narrows a set the
    program never constrained)."""
    from mc.gen.atoms import LIT1  # pylint: disable=import-outside-toplevel

    int_reads = [
        ["gtxn 1 GroupIndex"], ["int 1", "gtxns GroupIndex"], ["gtxn 0 GroupIndex"], ["txn FirstValid"], ["txn Amount"],
        ["global MinTxnFee"], ["global Round"], ["gtxn 0 Fee"], ["gtxn 1 TypeEnum"], ["gtxn 0 OnCompletion"], ["gtxn 1 ApplicationID"],
        ["txn GroupIndex", "int 1", "+"], ["global GroupSize", "int 1", "-"], ["txn Fee", "int 1", "+"], ["txn TypeEnum", "int 1", "+"],
        ["txn OnCompletion", "int 1", "+"], ["int 2", "txn GroupIndex", "-"], ["txn NumAppArgs"], ["txn GroupIndex", "int 1", "+", "gtxns GroupIndex"],
    ]
    consts = ["int 1", "int 2", "int 6"]
    ops = ("==", "!=", "<")
    atoms: List[List[str]] = []
    for r in int_reads:
        for c in consts:
            for o in ops:
                atoms.append(r + [c, o])
                atoms.append([c] + r + [o])
    int_reads += [["int 1", "txn GroupIndex", "-", "gtxns Fee"], ["int 1", "int 1", "+", "gtxns Fee"]]
    addr_reads = [["txn Receiver"], ["txn AssetReceiver"], ["gtxn 0 RekeyTo"], ["gtxn 1 Sender"], ["gtxn 0 CloseRemainderTo"],
                  ["int 1", "gtxns AssetCloseTo"], ["global CreatorAddress"],
                  # positions computed from the own index in ways that are neither `GroupIndex + k` nor `GroupIndex - k`
                  ["int 2", "txn GroupIndex", "-", "gtxns RekeyTo"], ["int 1", "txn GroupIndex", "-", "gtxns Sender"],
                  ["txn GroupIndex", "int 1", "+", "int 1", "+", "gtxns RekeyTo"], ["int 1", "int 1", "+", "gtxns RekeyTo"]]
    for r in addr_reads:
        for c in ("global ZeroAddress", f"addr {LIT1}"):
            for o in ("==", "!="):
                atoms.append(r + [c, o])
                atoms.append([c] + r + [o])
    out: List[Any] = []
    for a in atoms:
        body = "\n".join(a)
        for tmpl in ("{A}\nassert\nint 1\nreturn\n", "{A}\nbz no\nint 1\nreturn\nno:\nerr\n", "{A}\nbnz yes\nerr\nyes:\nint 1\nreturn\n", "{A}\nreturn\n",
                     "{A}\n!\nbz yes\nerr\nyes:\nint 1\nreturn\n"):
            out.append(("attr", "#pragma version 8\n" + tmpl.replace("{A}", body)))
    return out


def trees(depth: int) -> List[Any]:
    """All binary trees of depth <= depth over leaves K (known) / U (unknown = stack bottom);
    inner nodes are the connective under test ('C') or the other one ('O')."""
    leaves: List[Any] = ["K", "U"]
    level: List[Any] = list(leaves)
    allt: List[Any] = list(leaves)
    for _ in range(depth):
        nxt: List[Any] = []
        for a in allt:
            for b in allt:
                for node in ("C", "O"):
                    nxt.append((node, a, b))
        allt = leaves + [t for t in nxt if _depth(t) <= depth]
        # keep the set small: dedupe
        seen: Set[str] = set()
        allt = [t for t in allt if not (repr(t) in seen or seen.add(repr(t)))]  # type: ignore
        if len(allt) > 3000:
            break
    return [t for t in allt if isinstance(t, tuple) and t[0] == "C" and _unknown_leftmost_ok(t)][:1500]


def _depth(t: Any) -> int:
    return 0 if isinstance(t, str) else 1 + max(_depth(t[1]), _depth(t[2]))


def _unknown_leftmost_ok(t: Any) -> bool:
    """Unknown leaves come from below the block's stack: in post-order code they can only be
    the leftmost leaves (everything pushed in the block is above them)."""
    seq = _leaves(t)
    seen_known = False
    for x in seq:
        if x == "K":
            seen_known = True
        elif seen_known:
            return False
    return True


def _leaves(t: Any) -> List[str]:
    return [t] if isinstance(t, str) else _leaves(t[1]) + _leaves(t[2])


def worker_init() -> None:
    from mc import harness  # noqa: F401  pylint: disable=import-outside-toplevel,unused-import


def parse_seq_line(line: str) -> Tuple[spec.Op, List[str]]:
    toks = line.split()
    return spec.BY_NAME[toks[0]], toks[1:]


def worker(item: Any, res: runner.Result) -> None:  # pylint: disable=too-many-locals,too-many-branches,too-many-statements
    from mc import harness  # pylint: disable=import-outside-toplevel
    from tealer.analyses.utils.stack_ast_builder import construct_stack_ast, compute_equations, KnownStackValue, UnknownStackValue  # pylint: disable=import-outside-toplevel
    from tealer.teal.instructions import instructions as I  # pylint: disable=import-outside-toplevel
    from tealer.utils.analyses import is_int_push_ins  # pylint: disable=import-outside-toplevel

    if item[0] == "attr":
        from mc import sem  # pylint: disable=import-outside-toplevel

        src = item[1]
        try:
            case = sem.Case(src)
        except BaseException as e:  # pylint: disable=broad-except
            res.violation("C11.crash", item, error=repr(e), program=src)
            return
        case.stats_into(res)
        res.count("attribution_programs")
        for run in case.accepting:
            for clause, det in sem.soundness_problems(case, run, case.visited(run), case.ctx):
                res.violation("C11.comparison-attributed-to-a-field-that-is-not-its-operand", item, clause=clause, program=src, env=repr(run.env), **det)
        if "gtxn" in src and "OnCompletion" not in src and "ApplicationID" not in src:
            # (tests of another member's OnCompletion / ApplicationID are the recorded C10 known finding: kept out here)
            # the contexts kept for other group members (absolute, at-index, relative) must admit them too
            from mc.checks import c10  # pylint: disable=import-outside-toplevel

            sub = runner.Result()
            c10.worker(("sound", src, None, None), sub)
            for v in sub.violations:
                res.violation("C11.comparison-attributed-to-a-transaction-that-is-not-its-operand", item, program=src, c10_clause=v["kind"], **v["detail"])
        res.outcome(("attr", len(case.accepting) > 0))
        if case.accepting:
            res.mark_nontrivial(src)
        return
    if item[0] == "tree":
        code = item[1]
        src = "#pragma version 8\n" + "\n".join(code) + "\nassert\n"
        # independent symbolic evaluation of the code: unknown bottom below the block
        st: List[Any] = []

        def pop() -> Any:
            return st.pop() if st else "U"

        for ln, tok in enumerate(code, start=2):
            if tok in ("int 1", "txn Fee"):
                st.append(("K", ln))
            elif tok == "!":
                a = pop()
                st.append(("K", ln))
            else:
                b = pop()
                a = pop()
                st.append(("N", tok, ln, a, b))
        root = pop()
        conn = root[1]

        def flat(v: Any) -> List[Any]:
            if v == "U" or v[0] == "K":
                return [v]
            if v[1] == conn:
                return flat(v[3]) + flat(v[4])
            return [v]

        exp = flat(root)
        try:
            teal, _ = harness.parse(src)
            harness.clear_caches()
            bb = teal.bbs[0]
            ast = construct_stack_ast(bb)
            ains = bb.instructions[-1]
            rootv = ast[ains].args[0]
            eqs, has_unknown = compute_equations(rootv, I.And if conn == "&&" else I.Or)
        except BaseException as e:  # pylint: disable=broad-except
            res.violation("C11.flatten-crash", item, error=repr(e), program=src)
            return
        want = [x[1] if x[0] == "K" else x[2] for x in exp if x != "U"]
        got = [e.instruction.line for e in eqs]
        res.count("trees")
        if got != want:
            res.violation("C11.flatten-leaves", item, expected=want, actual=got, program=src)
        if has_unknown != any(x == "U" for x in exp):
            res.violation("C11.flatten-has-unknown", item, expected=any(x == "U" for x in exp), actual=has_unknown, program=src)
        res.outcome((tuple(want), has_unknown))
        res.mark_nontrivial(src)
        return
    _, seq = item
    labels = sorted({t for l in seq for t in l.split()[1:] if t in ("L0", "L1")})
    src = "#pragma version 8\n" + "\n".join(seq) + "\n" + "".join(f"{l}:\nint 1\n" for l in labels)
    try:
        teal, _ = harness.parse(src)
        harness.clear_caches()
        bb = teal.bbs[0]
        ast = construct_stack_ast(bb)
    except BaseException as e:  # pylint: disable=broad-except
        res.violation("C11.crash", item, error=repr(e), program=src)
        return
    if [i.line for i in bb.instructions] != list(range(1, len(seq) + 2)):
        res.violation("C11.sequence-not-one-block", item, lines=[i.line for i in bb.instructions], program=src)
        return
    stack: List[Tuple[int, int]] = []  # (producer position in block, out index)
    # by-value view of the same stack: a pure shuffle (swap, dup, dup2, dig, cover, uncover, dupn, bury) moves values
    # without changing them, so "the instruction that really pushed the operand" may also be read as the original
    # producer of the moved value; a tool that looks through shuffles correctly is as right as one that does not
    val_of: Dict[Tuple[int, int], Optional[Tuple[int, int]]] = {}
    sig = []
    for k, line in enumerate(seq, start=1):
        op, imms = parse_seq_line(line)
        ins = bb.instructions[k]
        np, nq = spec.pops(op, imms), spec.pushes(op, imms)
        res.count("instructions_checked")
        if ins.stack_pop_size != np or ins.stack_push_size != nq:
            res.violation("C11.pop-push-count", item, opcode=op.name, line=line, expected=[np, nq],
                          actual=[ins.stack_pop_size, ins.stack_push_size])
        exp_args: List[Optional[Tuple[int, int]]] = []
        if np:
            taken = stack[-np:] if len(stack) >= np else stack[:]
            exp_args = [None] * (np - len(taken)) + list(taken)  # type: ignore
            del stack[len(stack) - len(taken):]
        args = ast[ins].args
        got: List[Optional[Tuple[int, int]]] = []
        for a in args:
            if isinstance(a, UnknownStackValue):
                got.append(None)
            else:
                pos = [j for j, x in enumerate(bb.instructions) if x is a.instruction]
                got.append((pos[0] if pos else -1, a.ins_out_values_index))
        def chain(t: Any) -> List[Any]:
            """t, the slot it was moved from by a pure shuffle, the slot that one was moved from, ..."""
            out_ = [t]
            while t is not None and t in val_of:
                t = val_of[t]
                out_.append(t)
            return out_

        if len(got) != len(exp_args) or any(g_ not in chain(e_) for g_, e_ in zip(got, exp_args)):
            res.violation("C11.operand-producer", item, opcode=op.name, line=line, position=k, expected=exp_args, actual=got,
                          also_accepted=[chain(e_)[1:] for e_ in exp_args])
        # an operand the tool reads as an integer literal carries the value really pushed in that position
        for a in args:
            if isinstance(a, UnknownStackValue):
                continue
            try:
                is_int, val = is_int_push_ins(a.instruction)
            except BaseException:  # pylint: disable=broad-except
                continue
            if not is_int or not isinstance(val, int):
                continue
            pos = [j for j, x in enumerate(bb.instructions) if x is a.instruction]
            if not pos or pos[0] == 0:
                continue
            p_op, p_imms = parse_seq_line(seq[pos[0] - 1])
            actual = None
            if p_op.name in ("int", "pushint") and p_imms and p_imms[0].isdigit():
                actual = int(p_imms[0])
            elif p_op.name == "pushints" and a.ins_out_values_index < len(p_imms) and p_imms[a.ins_out_values_index].isdigit():
                actual = int(p_imms[a.ins_out_values_index])
            res.count("literal_operands_checked")
            if actual is None or actual != val:
                res.violation("C11.literal-value", item, opcode=op.name, line=line, position=k, producer=seq[pos[0] - 1],
                              out_index=a.ins_out_values_index, tool_reads=val, pushed=actual)
        for o in range(nq):
            stack.append((k, o))
        # values moved by a pure shuffle keep their original producer in the by-value view
        inv = list(exp_args)  # the popped slots, deepest first (None = from before the block)
        moved: Optional[List[Any]] = None
        if len(inv) == np:
            if op.name == "swap":
                moved = [inv[1], inv[0]]
            elif op.name == "dup":
                moved = [inv[0], inv[0]]
            elif op.name == "dup2":
                moved = [inv[0], inv[1], inv[0], inv[1]]
            elif op.name == "dig":
                moved = inv + [inv[0]]
            elif op.name == "cover":
                moved = [inv[-1]] + inv[:-1]
            elif op.name == "uncover":
                moved = inv[1:] + [inv[0]]
            elif op.name == "dupn":
                moved = [inv[0]] * nq
            elif op.name == "bury" and np >= 2:
                moved = [inv[-1]] + inv[1:-1]
        if moved is not None and len(moved) == nq:
            for o, v_ in enumerate(moved):
                val_of[(k, o)] = v_
        sig.append((np, nq))
    res.outcome(tuple(sig))
    if any(p for p, _ in sig):
        res.mark_nontrivial(src)
    res.sample({"program": src})


_ATTR = None


def attribute(entry: Any, v: Any) -> bool:
    """Known finding: a declared pop/push count that differs from the AVM's, for one named
    opcode; every violation explained by it involves that opcode in the sequence and disappears
    when the opcode's declared counts are corrected in-process."""
    global _ATTR  # pylint: disable=global-statement
    if _ATTR is None:
        _ATTR = findings.by_patch(worker)
    return _ATTR(entry, v)


def main(argv: List[str]) -> int:
    tier, seed = runner.tier_and_seed(argv)
    t0 = time.time()
    its = runner.rotate(items(tier), seed)
    total = runner.execute("mc.checks.c11", "worker", its, chunk=500)
    c = total.counters
    cov = {
        "evaluations": len(its),
        "rule": "all straight-line sequences of length <= 2 over one representative per (pops,pushes) class + every stack-shuffling / "
        "multi-push opcode with immediates 0..2 (0..4 thorough), length 3 over the shuffle sub-alphabet (full alphabet / length 4 over "
        "the shuffle core in thorough), the complete per-opcode table at L=1, control opcodes as last instruction, and all &&/|| trees "
        "of depth <= 3; attribution programs: one comparison whose operand is NOT a governed field (another member's field, a look-alike "
        "field, the field +/- a constant) x operand orders x consumers, explored by E1 over all groups, every block passed must admit the "
        "run; distinct = sequence text; non-trivial = some instruction pops an operand",
        "exhaustive": True,
        "single_source_cells": spec.SINGLE_SOURCE_NOTE,
        "instructions_checked": c.get("instructions_checked", 0),
        "trees": c.get("trees", 0),
        "attribution_programs": c.get("attribution_programs", 0),
        "states": c.get("states", 0),
        "transitions": c.get("transitions", 0),
    }
    return runner.finish(PROP, tier, seed, "exploration", total, t0, cov,
                         ["pops/pushes of mc/spec.py are the trusted base (single source)",
                          "the position machine treats every opcode as consuming `pops` slots and producing `pushes` fresh values"])


if __name__ == "__main__":
    sys.exit(main(sys.argv[1:]))
