"""C08 - per-block address-field information admits every approvable address."""
import itertools
import sys
import time
from typing import Any, List

from mc import findings, runner
from mc.gen import atoms as A
from mc.gen import spaces

PROP = "C08"
FIELDS = {"RekeyTo": "rekeyto", "CloseRemainderTo": "closeto", "AssetCloseTo": "assetcloseto", "Sender": "sender"}


def alphabets(tier: str, field: str) -> Any:
    full = A.addr_atoms(field)
    small = [
        [f"txn {field}", "global ZeroAddress", "=="],
        [f"addr {A.LIT1}", f"txn {field}", "=="],
        [f"txn {field}", "global ZeroAddress", "!="],
        [f"txn {field}", f"addr {A.LIT2}", "!="],
    ]
    if tier != "quick":
        small += [[f"txn {field}", "global CreatorAddress", "=="], ["global ZeroAddress", f"txn {field}", "!="]]
    return full, small


def items(tier: str) -> List[Any]:
    out: List[Any] = []
    seen = set()
    for field in FIELDS:
        full, small = alphabets(tier, field)
        for a in (small[0], small[1], small[3]):
            full = full + A.cross_block(a)
        # RekeyTo gets the full structure space; the other three fields share the code path and get
        # the atom table + smaller structure spaces in the quick tier
        l2 = None if field == "RekeyTo" or (tier != "quick" and field == "Sender") else (2 if tier == "quick" else 3)
        for s in spaces.layered(full, small, tier, l2_size=l2, l3=(field in ("RekeyTo", "Sender") or tier != "quick"),
                                chains=(field == "RekeyTo" or tier != "quick")):
            if s not in seen:
                seen.add(s)
                out.append(("direct", field, s))
        sh = []
        for a in small[:2] + [[f"txn {field}", f"addr {A.LIT1}", "!="]]:
            sh += A.shuffled(a)
        if tier == "quick" and field not in ("RekeyTo", "Sender"):
            sh = sh[::3]
        for s in spaces.layered(sh, sh[:2], tier, l2_size=1 if tier == "quick" else 2, l3=False, max_subs=1, chains=False):
            if s not in seen:
                seen.add(s)
                out.append(("shuffle", field, s))
    for s in spaces.unresolvable_constants([x for m, f, x in out if m == "direct" and f == "RekeyTo"], 2000 if tier == "quick" else 10000):
        if s not in seen:
            seen.add(s)
            out.append(("shuffle", "RekeyTo", s))
    # a field limited to two literal addresses by a disjunction, combined with a check of one of them (both direct checks)
    from mc.gen import core  # pylint: disable=import-outside-toplevel

    for field in ("RekeyTo", "Sender") if tier == "quick" else FIELDS:
        disj = [f"txn {field}", f"addr {A.LIT1}", "==", f"txn {field}", f"addr {A.LIT2}", "==", "||"]
        alpha2 = [disj, [f"txn {field}", f"addr {A.LIT1}", "=="], [f"addr {A.LIT2}", f"txn {field}", "=="], [f"txn {field}", f"addr {A.LIT1}", "!="]]
        for nsubs, sizes in ((0, (2,)), (1, (2,))):  # size 3 is the intended thorough bound (not yet run to completion)
            o = core.Opts(cond_level=0, nsubs=nsubs)
            for size in sizes:
                for prog, k in core.skeletons(size, o):
                    if k < 2:
                        continue
                    for at in spaces._fill_two(k, alpha2, A.FREE):  # pylint: disable=protected-access
                        if disj not in at:
                            continue
                        for subs_first in (False, True) if nsubs else (False,):
                            s = core.render(prog, at, subs_first=subs_first)
                            if s not in seen:
                                seen.add(s)
                                out.append(("direct", field, s))
    # soundness-only: loops that really iterate (counter conditions); multi-way branches consuming a tracked condition
    for field in ("RekeyTo", "Sender") if tier == "quick" else FIELDS:
        full_f, small = alphabets(tier, field)
        for s in spaces.multiway(full_f):
            if s not in seen:
                seen.add(s)
                out.append(("shuffle", field, s))
        for s in spaces.counted_loops(small[:2] + [[f"txn {field}", f"addr {A.LIT1}", "!="]], tier):
            if s not in seen:
                seen.add(s)
                out.append(("shuffle", field, s))
    from mc.gen import raw  # pylint: disable=import-outside-toplevel

    for atom in [["txn RekeyTo", "global ZeroAddress", "=="], ["txn RekeyTo", f"addr {A.LIT1}", "!="]]:
        for s in raw.with_atom(atom, 4 if tier == "quick" else 5):
            if s not in seen:
                seen.add(s)
                out.append(("g1a", "RekeyTo", s))
    out.append(("lattice", "", ""))
    return out


def worker_init() -> None:
    from mc import harness  # noqa: F401  pylint: disable=import-outside-toplevel,unused-import


def lattice(res: runner.Result) -> None:
    """Size-0 space: the set algebra with ANY/NO markers against plain set semantics."""
    from tealer.analyses.dataflow.transaction_context.addr_fields import AddrFields, ANY_ADDRESS, NO_ADDRESS  # pylint: disable=import-outside-toplevel

    obj = AddrFields.__new__(AddrFields)
    universe = frozenset(("A", "B", "X"))
    vals = [{ANY_ADDRESS}, {NO_ADDRESS}, set(), {"A"}, {"B"}, {"A", "B"}]

    def gamma(s: Any) -> frozenset:
        if ANY_ADDRESS in s:
            return universe
        return frozenset(x for x in s if x != NO_ADDRESS)

    for a, b in itertools.product(vals, repeat=2):
        u = obj._union("RekeyTo", set(a), set(b))  # pylint: disable=protected-access
        i = obj._intersection("RekeyTo", set(a), set(b))  # pylint: disable=protected-access
        res.count("lattice_cases", 2)
        if gamma(u) != gamma(a) | gamma(b):
            res.violation("C08.lattice.union", ("lattice", "", ""), a=sorted(a), b=sorted(b), got=sorted(u))
        if gamma(i) != gamma(a) & gamma(b):
            res.violation("C08.lattice.intersection", ("lattice", "", ""), a=sorted(a), b=sorted(b), got=sorted(i))
    for a, b, c in itertools.product(vals, repeat=3):
        res.count("lattice_cases", 2)
        l = obj._union("k", obj._union("k", set(a), set(b)), set(c))  # pylint: disable=protected-access
        r = obj._union("k", set(a), obj._union("k", set(b), set(c)))  # pylint: disable=protected-access
        if gamma(l) != gamma(r):
            res.violation("C08.lattice.union-assoc", ("lattice", "", ""), a=sorted(a), b=sorted(b), c=sorted(c))
        l = obj._intersection("k", obj._intersection("k", set(a), set(b)), set(c))  # pylint: disable=protected-access
        r = obj._intersection("k", set(a), obj._intersection("k", set(b), set(c)))  # pylint: disable=protected-access
        if gamma(l) != gamma(r):
            res.violation("C08.lattice.intersection-assoc", ("lattice", "", ""), a=sorted(a), b=sorted(b), c=sorted(c))


def worker(item: Any, res: runner.Result) -> None:
    from mc import sem, abstract  # pylint: disable=import-outside-toplevel
    from mc.machine import ZERO  # pylint: disable=import-outside-toplevel

    mode, field, src = item
    if mode == "lattice":
        lattice(res)
        return
    if mode == "g1a":
        from mc.asm import tokenize  # pylint: disable=import-outside-toplevel
        from mc.refcfg import RefGraph  # pylint: disable=import-outside-toplevel

        if not RefGraph(tokenize(src)).entered_only_through_callsub():
            res.count("filtered_bodies_not_entered_only_through_callsub")
            return
    try:
        case = sem.Case(src)
    except BaseException as e:  # pylint: disable=broad-except
        res.violation("C08.analysis-crash", item, error=repr(e))
        return
    case.stats_into(res)
    for run in case.accepting:
        for m in sem.own_views(case, run):
            for f, attr in FIELDS.items():
                opts = [v for v in sem.addr_options(case, run, m, f) if v != ZERO]
                if not opts:
                    continue
                for b in case.visited(run):
                    av = getattr(case.ctx(b), attr)
                    res.count("block_run_checks")
                    for v in opts:
                        if not sem.addr_admits(av, v):
                            res.violation("C08.sound.address-not-admitted", item, block=b.entry_instr.line, field=f,
                                          value=v[1], listed=list(av.possible_addr), any_addr=av.any_addr, env=repr(run.env))
    attr = FIELDS[field]
    outcome = tuple((b.entry_instr.line,) + tuple(__import__("mc.harness", fromlist=["x"]).addr_snapshot(getattr(case.ctx(b), attr)))
                    for b in case.function.blocks)
    if mode == "direct" or (mode == "g1a" and not sem.can_fall_off_end(case.lines)):
        abstract.check_c08_converse(case, item, res, field, attr)
    res.outcome(outcome)
    if any(not o[1] for o in outcome):
        res.mark_nontrivial(src)
    res.sample({"program": src, "field": field, "contexts": [list(o) for o in outcome]})


_ATTR = None


def attribute(entry: Any, v: Any) -> bool:
    global _ATTR  # pylint: disable=global-statement
    if _ATTR is None:
        _ATTR = findings.any_of(findings.by_repair(worker, lambda it: it[-1], lambda it, s: tuple(it[:-1]) + (s,)), findings.by_patch(worker))
    return _ATTR(entry, v)


def main(argv: List[str]) -> int:
    tier, seed = runner.tier_and_seed(argv)
    t0 = time.time()
    its = runner.rotate(items(tier), seed)
    total = runner.execute("mc.checks.c08", "worker", its, chunk=40)
    c = total.counters
    cov = {
        "programs": len(its),
        "states": c.get("states", 0) + c.get("o2_states", 0),
        "transitions": c.get("transitions", 0) + c.get("o2_transitions", 0),
        "traces_validated_against_impl": c.get("block_run_checks", 0) + c.get("o2_block_checks", 0),
        "exhaustive": c.get("capped_programs", 0) == 0,
        "rule": "layered G2 spaces over address atoms of RekeyTo/CloseRemainderTo/AssetCloseTo/Sender (==,!= x both orders x "
        "ZeroAddress/2 literals/CreatorAddress); values zero, literals, creator, fresh attacker; + 6^2+6^3 lattice cases; "
        "non-trivial = some block is not 'any address'",
    }
    return runner.finish(PROP, tier, seed, "model_checking", total, t0, cov,
                         ["reference AVM + O2 are the trusted base",
                          "converse demanded as: a fresh address admitted on no accepting abstract path => not 'any address'"])


if __name__ == "__main__":
    sys.exit(main(sys.argv[1:]))
