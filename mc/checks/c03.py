"""C03 - no report when every accepting path directly excludes the dangerous value."""
import sys
import time
from typing import Any, List

from mc import findings, runner
from mc.gen import detspaces

PROP = "C03"


def items(tier: str) -> Any:
    return (it for it in detspaces.detector_spaces(tier) if it[1] in ("direct", "g1a"))


def worker_init() -> None:
    from mc import harness  # noqa: F401  pylint: disable=import-outside-toplevel,unused-import


def worker(item: Any, res: runner.Result) -> None:
    from mc import sem, detect, harness  # pylint: disable=import-outside-toplevel

    focus, mode, src = item
    if mode == "g1a":
        from mc.asm import tokenize  # pylint: disable=import-outside-toplevel
        from mc.refcfg import RefGraph  # pylint: disable=import-outside-toplevel

        if not RefGraph(tokenize(src)).entered_only_through_callsub():
            res.count("filtered_bodies_not_entered_only_through_callsub")
            return
    try:
        case = sem.Case(src, explore=False)
    except BaseException as e:  # pylint: disable=broad-except
        res.violation("C03.analysis-crash", item, error=repr(e))
        return
    av = detect.AbstractVerdict(case)
    verdict = []
    for det in detect.DETECTORS:
        try:
            paths = harness.run_detector(case.tealer, det)
        except BaseException as e:  # pylint: disable=broad-except
            res.violation("C03.detector-crash", item, detector=det, error=repr(e))
            continue
        walk = av.walk_exists(det)
        res.count("detector_runs")
        verdict.append((det, walk, len(paths) > 0))
        if not walk:
            res.count("must_be_silent:" + det)
            if paths:
                res.violation("C03.spurious-report", item, detector=det,
                              path=" -> ".join(str(b.idx) for b in paths[0]),
                              path_lines=[b.entry_instr.line for b in paths[0]])
    res.count("o2_states", av.solver.states)
    res.count("o2_transitions", av.solver.transitions)
    res.outcome(tuple(verdict))
    if any(d == focus and not w for d, w, _ in verdict):
        res.mark_nontrivial(src)
    res.sample({"program": src, "focus": focus, "verdicts": [list(v) for v in verdict]})


_ATTR = None


def attribute(entry: Any, v: Any) -> bool:
    global _ATTR  # pylint: disable=global-statement
    if _ATTR is None:
        _ATTR = findings.any_of(
            findings.by_repair(worker, lambda it: it[2], lambda it, s: (it[0], it[1], s)),
            findings.by_patch(worker),
        )
    return _ATTR(entry, v)


def main(argv: List[str]) -> int:
    tier, seed = runner.tier_and_seed(argv)
    t0 = time.time()
    its, _ = runner.work_list(items, tier, seed)
    total = runner.execute("mc.checks.c03", "worker", its, chunk=40)
    c = total.counters
    cov = {
        "programs": c.get("items", 0),
        "states": c.get("o2_states", 0),
        "transitions": c.get("o2_transitions", 0),
        "traces_validated_against_impl": c.get("detector_runs", 0),
        "exhaustive": True,
        "rule": "direct-check programs of the per-detector layered G2 spaces; O2 computes per block and field the exactly "
        "admitted values, then searches a walk entry -> terminating block through blocks that admit the dangerous value; "
        "non-trivial = no such walk exists for the focus detector (the detector must be silent)",
    }
    return runner.finish(PROP, tier, seed, "model_checking", total, t0, cov,
                         ["O2 evaluator is the trusted base", "two-field detectors: fields treated independently per block",
                          "blocks with several calling contexts use the context-insensitive (larger) admitted sets"])


if __name__ == "__main__":
    sys.exit(main(sys.argv[1:]))
