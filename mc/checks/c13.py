"""C13 - group-configuration verdicts follow the group semantics.

Enumerated: configurations of 1-3 transactions over a pool of small fragment contracts
(own-field checks, Gtxn[i] checks, Gtxn[GroupIndex +- k] checks, index checks), with types,
absolute indices and relative offsets; for every configuration all concrete groups consistent
with it are explored as a product of E1 explorations sharing the group valuation.
"""
import itertools
import os
import sys
import time
from typing import Any, Dict, List, Optional, Set, Tuple

from mc import runner
from mc.abstract import Dimension as abstract_Dimension
from mc.gen.atoms import LIT1

PROP = "C13"
Z = "global ZeroAddress"
P = "#pragma version 8\n"


def _c(*stmts: str) -> str:
    return P + "\n".join(stmts) + "\nint 1\nreturn\n"


LSIGS: Dict[str, str] = {
    "approve": _c(),
    "own_rekey": _c("txn RekeyTo", Z, "==", "assert"),
    "abs0_rekey": _c("gtxn 0 RekeyTo", Z, "==", "assert"),
    "abs1_rekey": _c("int 1", "gtxns RekeyTo", Z, "==", "assert"),
    "rel+1_rekey": _c("txn GroupIndex", "int 1", "+", "gtxns RekeyTo", Z, "==", "assert"),
    "rel-1_rekey": _c("txn GroupIndex", "int 1", "-", "gtxns RekeyTo", Z, "==", "assert"),
    "idx0_abs0_rekey": _c("txn GroupIndex", "int 0", "==", "assert", "gtxn 0 RekeyTo", Z, "==", "assert"),
    "half_rekey": P + "txn FirstValid\nint 7\n>\nbz skip\ntxn RekeyTo\n" + Z + "\n==\nassert\nskip:\nint 1\nreturn\n",
    "own_fee": _c("txn Fee", "int 1000", "<=", "assert"),
    "abs1_fee": _c("gtxn 1 Fee", "int 1000", "<=", "assert"),
    "rel+1_fee": _c("int 1", "txn GroupIndex", "+", "gtxns Fee", "int 1000", "<=", "assert"),
    # a bound the tool cannot evaluate on the member's OWN fee: says nothing about any other member
    "own_fee_minfee": _c("txn Fee", "global MinTxnFee", "<=", "assert"),
    "own_close": _c("txn CloseRemainderTo", Z, "==", "assert"),
    "abs0_close": _c("gtxn 0 CloseRemainderTo", Z, "==", "assert"),
    "own_rekey_lit": _c(f"addr {LIT1}", "txn RekeyTo", "==", "assert"),
    "rel+2_rekey": _c("txn GroupIndex", "int 2", "+", "gtxns RekeyTo", Z, "==", "assert"),
    # accepting exits inside a subroutine: with the neighbour check before it, and without any check
    "subexit_rel+1_rekey": P + "callsub f\nerr\nf:\ntxn GroupIndex\nint 1\n+\ngtxns RekeyTo\n" + Z + "\n==\nassert\nint 1\nreturn\n",
    "subexit_open_rel+1_rekey": P + "txn FirstValid\nint 7\n>\nbz chk\ncallsub f\nchk:\ntxn GroupIndex\nint 1\n+\ngtxns RekeyTo\n" + Z
    + "\n==\nassert\nint 1\nreturn\nf:\nint 1\nreturn\n",
    "subexit_open_abs1_rekey": P + "txn FirstValid\nint 7\n>\nbz chk\ncallsub f\nchk:\ngtxn 1 RekeyTo\n" + Z
    + "\n==\nassert\nint 1\nreturn\nf:\nint 1\nreturn\n",
}
APPS: Dict[str, str] = {
    "app_approve": _c("global CreatorAddress", "pop"),
    "app_noupdate": _c("global CreatorAddress", "pop", "txn OnCompletion", "int UpdateApplication", "!=", "assert"),
    "app_nodelete": _c("global CreatorAddress", "pop", "int DeleteApplication", "txn OnCompletion", "!=", "assert"),
    "app_abs1_noupdate": _c("global CreatorAddress", "pop", "gtxn 1 OnCompletion", "int UpdateApplication", "!=", "assert"),
    "app_rel-1_rekey": _c("global CreatorAddress", "pop", "txn GroupIndex", "int 1", "-", "gtxns RekeyTo", Z, "==", "assert"),
    "app_creator": _c("txn Sender", "global CreatorAddress", "==", "assert"),
}
DETS = ("rekey-to", "can-close-account", "can-close-asset", "missing-fee-check", "is-updatable", "is-deletable",
        "unprotected-updatable", "unprotected-deletable")
STATELESS = ("rekey-to", "can-close-account", "can-close-asset", "missing-fee-check")
TYPE_CODE = {"pay": 1, "axfer": 4, "appl": 6}


def txn(tid: str, typ: str = "txn", lsig: Optional[str] = None, app: Optional[str] = None, has_lsig: Optional[bool] = None,
        abs_index: Optional[int] = None, rel: Optional[Dict[str, int]] = None) -> Dict[str, Any]:
    return {"id": tid, "type": typ, "lsig": lsig, "app": app, "has_lsig": has_lsig, "abs": abs_index, "rel": rel or {}}


def items(tier: str) -> List[Any]:  # pylint: disable=too-many-branches
    out: List[Any] = []
    quick = tier == "quick"
    types = ("txn", "pay", "appl") if quick else ("txn", "pay", "axfer", "appl")
    # one transaction
    for name in LSIGS:
        for a in (None, 0, 1):
            for typ in types:
                out.append([txn("T1", typ, lsig=name, abs_index=a)])
    for name in APPS:
        for a in (None, 0, 1):
            out.append([txn("T1", "appl", app=name, abs_index=a)])
            out.append([txn("T1", "appl", app=name, lsig="own_rekey", abs_index=a)])
            out.append([txn("T1", "txn", app=name, abs_index=a)])
    out.append([txn("T1", "txn", has_lsig=True)])
    out.append([txn("T1", "pay")])
    # two transactions: T1 carries a checking contract, T2 is the (possibly unchecked) target
    targets: List[Tuple[Optional[str], Optional[bool]]] = [("approve", None), (None, True), ("own_fee", None), ("rel-1_rekey", None), ("abs0_rekey", None)]
    if not quick:
        targets = [(None, True)] + [(n, None) for n in LSIGS]
    abs_pairs = [(None, None), (0, 1), (1, 0), (None, 1), (0, None), (None, 0)]
    rels = [None, ("T1", "T2", 1), ("T1", "T2", -1), ("T2", "T1", 1), ("T2", "T1", -1), ("T1", "T2", 2)]
    checkers = list(LSIGS)
    for chk in checkers:
        for tl, th in targets:
            for a1, a2 in abs_pairs:
                for r in rels:
                    t1 = txn("T1", "txn", lsig=chk, abs_index=a1)
                    t2 = txn("T2", "txn", lsig=tl, has_lsig=th, abs_index=a2)
                    if r is not None:
                        src_t, other, off = r
                        (t1 if src_t == "T1" else t2)["rel"][other] = off
                        if a1 is not None and a2 is not None:
                            # keep the configuration consistent
                            d = (a2 - a1) if src_t == "T1" else (a1 - a2)
                            if d != off:
                                continue
                    out.append([t1, t2])
    for app in APPS:
        for a1, a2 in ((None, None), (0, 1), (1, 0)):
            for r in (None, ("T1", "T2", 1), ("T1", "T2", -1), ("T2", "T1", 1)):
                t1 = txn("T1", "appl", app=app, abs_index=a1)
                t2 = txn("T2", "appl", app="app_approve", abs_index=a2)
                t3 = txn("T2", "txn", lsig="approve", abs_index=a2)
                t4 = txn("T2", "txn", app="app_approve", abs_index=a2)
                for tgt in (t2, t3, t4):
                    tt1 = dict(t1, rel=dict(t1["rel"]))
                    tt2 = dict(tgt, rel=dict(tgt["rel"]))
                    if r is not None:
                        src_t, other, off = r
                        (tt1 if src_t == "T1" else tt2)["rel"][other] = off
                        if a1 is not None and a2 is not None:
                            d = (a2 - a1) if src_t == "T1" else (a1 - a2)
                            if d != off:
                                continue
                    out.append([tt1, tt2])
    # three transactions
    trip = [("abs0_rekey", "approve", "rel-1_rekey"), ("rel+1_rekey", "approve", "approve"), ("rel+2_rekey", "approve", "approve"),
            ("abs1_fee", "own_fee", "approve"), ("own_rekey", "abs0_rekey", "approve")]
    trip += [("rel+2_rekey", "own_rekey", "approve"), ("rel+1_rekey", "approve", "rel-1_rekey"), ("approve", "rel+1_rekey", "approve")]
    if not quick:
        trip += [("rel+1_fee", "approve", "rel-1_rekey"), ("idx0_abs0_rekey", "abs0_rekey", "approve")]
    for c1, c2, c3 in trip:
        for absx in ((None, None, None), (0, 1, 2), (2, 1, 0), (0, None, None)):
            for r in (None, [("T1", "T2", 1), ("T2", "T3", 1)], [("T1", "T3", 2)], [("T3", "T2", -1)], [("T1", "T3", 2), ("T2", "T3", 1)],
                      [("T2", "T3", 1), ("T1", "T3", 2)], [("T1", "T2", 1), ("T3", "T2", -1)]):
                ts = [txn("T1", "txn", lsig=c1, abs_index=absx[0]), txn("T2", "txn", lsig=c2, abs_index=absx[1]),
                      txn("T3", "txn", lsig=c3, abs_index=absx[2])]
                ok = True
                if r is not None:
                    for src_t, other, off in r:
                        ts[int(src_t[1]) - 1]["rel"][other] = off
                        a_s, a_o = absx[int(src_t[1]) - 1], absx[int(other[1]) - 1]
                        if a_s is not None and a_o is not None and a_o - a_s != off:
                            ok = False
                if ok:
                    out.append(ts)
    # de-duplicate
    seen: Set[str] = set()
    uniq: List[Any] = []
    for cfg in out:
        k = repr(cfg)
        if k not in seen:
            seen.add(k)
            uniq.append(cfg)
    return uniq


_DIR: Optional[str] = None


def worker_init() -> None:
    from mc import harness  # noqa: F401  pylint: disable=import-outside-toplevel,unused-import


def _scratch() -> str:
    global _DIR  # pylint: disable=global-statement
    if _DIR is None:
        base = os.environ.get("TEALER_ROOT_OUTPUT_DIR", os.path.join(runner.WORK_DIR, "c13"))
        _DIR = os.path.join(base, "c13-contracts")
        os.makedirs(_DIR, exist_ok=True)
        for name, src in list(LSIGS.items()) + list(APPS.items()):
            with open(os.path.join(_DIR, name.replace("+", "p").replace("-", "m") + ".teal"), "w", encoding="utf-8") as f:
                f.write(src)
    return _DIR


def _fname(name: str) -> str:
    return name.replace("+", "p").replace("-", "m")


def config_yaml(cfg: List[Dict[str, Any]]) -> str:
    used_l = sorted({t["lsig"] for t in cfg if t["lsig"]})
    used_a = sorted({t["app"] for t in cfg if t["app"]})
    lines = ["name: C13", "contracts:" if used_l or used_a else "contracts: []"]
    for n in used_l + used_a:
        lines += [
            f"  - name: {_fname(n)}",
            f"    file_path: {_fname(n)}.teal",
            f"    type: {'LogicSig' if n in LSIGS else 'ApprovalProgram'}",
            "    version: 8",
            "    subroutines: []",
            "    functions:",
            "      - name: main",
            '        dispatch_path: ["B0"]',
        ]
    lines += ["groups:", "  - operation: op", "    transactions:"]
    for t in cfg:
        lines += [f"      - txn_id: {t['id']}", f"        txn_type: {t['type']}"]
        if t["app"]:
            lines += ["        application:", f"          contract: {_fname(t['app'])}", "          function: main"]
        if t["lsig"]:
            lines += ["        logic_sig:", f"          contract: {_fname(t['lsig'])}", "          function: main"]
        if t["has_lsig"] is not None:
            lines.append(f"        has_logic_sig: {'true' if t['has_lsig'] else 'false'}")
        if t["abs"] is not None:
            lines.append(f"        absolute_index: {t['abs']}")
        if t["rel"]:
            lines.append("        relative_indexes:")
            for other, off in t["rel"].items():
                lines += [f"          - other_txn_id: {other}", f"            offset: {off}"]
    return "\n".join(lines) + "\n"


def positions(cfg: List[Dict[str, Any]], max_pos: int = 3) -> List[Dict[str, int]]:
    ids = [t["id"] for t in cfg]
    out = []
    for combo in itertools.permutations(range(max_pos + 1), len(cfg)):
        pos = dict(zip(ids, combo))
        ok = True
        for t in cfg:
            if t["abs"] is not None and pos[t["id"]] != t["abs"]:
                ok = False
            for other, off in t["rel"].items():
                if pos[other] != pos[t["id"]] + off:
                    ok = False
        if ok:
            out.append(pos)
    return out


def eligible(t: Dict[str, Any], det: str) -> bool:
    has_lsig = bool(t["lsig"]) or bool(t["has_lsig"])
    if det in STATELESS and not has_lsig:
        return False
    if det not in STATELESS and not t["app"]:
        return False
    if det == "can-close-account" and t["type"] not in ("txn", "pay"):
        return False
    if det == "can-close-asset" and t["type"] not in ("txn", "axfer"):
        return False
    return True


def dangerous_member(env: Dict[Any, Any], m: int, det: str) -> bool:  # pylint: disable=too-many-return-statements
    from mc.machine import ATTACKER  # pylint: disable=import-outside-toplevel

    def val(f: str) -> Tuple[bool, Any]:
        k = ("m", m, f)
        return (True, env[k]) if k in env else (False, None)

    bt, t = val("TypeEnum")
    if det == "rekey-to":
        b, v = val("RekeyTo")
        return (not b) or v == ATTACKER
    if det in ("can-close-account", "can-close-asset"):
        code, f = (1, "CloseRemainderTo") if det == "can-close-account" else (4, "AssetCloseTo")
        if bt and t != code:
            return False
        b, v = val(f)
        return (not b) or v == ATTACKER
    if det == "missing-fee-check":
        b, v = val("Fee")
        return (not b) or v > 272000
    code = 4 if "updatable" in det else 5
    if bt and t != 6:
        return False
    ba, app = val("ApplicationID")
    if ba and app == 0:
        return False
    b, oc = val("OnCompletion")
    if b and oc != code:
        return False
    if det.startswith("unprotected"):
        b, v = val("Sender")
        return (not b) or v == ATTACKER
    return True


class MemberDim(abstract_Dimension):
    """O2 dimension: one field of the transaction a contract reads as own / Gtxn[i] / Gtxn[GI+k]."""

    def __init__(self, field: str, how: Tuple[str, Optional[int]], values: List[Any]):
        self.name = field
        self.field = field
        self.how = how
        self.values = values

    def _match(self, node: Any) -> bool:
        kind, n = self.how
        if node[1] == "txn":
            return kind == "own" and node[2] == self.field
        if node[1] == "gtxn":
            return node[3] == self.field and n is not None and kind in ("own", "abs") and node[2] == n
        if node[1] == "gtxns" and node[3] == self.field:
            idx = node[2]
            if idx[0] == "c":
                return n is not None and kind in ("own", "abs") and idx[1] == n
            if idx[0] == "r" and idx[1] == "txn" and idx[2] == "GroupIndex":
                return kind == "own"
            if kind == "rel" and idx[0] == "op" and idx[1] in ("+", "-"):
                a, b = idx[2], idx[3]
                gi = lambda x: x[0] == "r" and x[1] == "txn" and x[2] == "GroupIndex"  # noqa: E731
                if idx[1] == "+":
                    if gi(a) and b[0] == "c":
                        return b[1] == n
                    if gi(b) and a[0] == "c":
                        return a[1] == n
                elif gi(a) and b[0] == "c":
                    return -b[1] == n
        return False

    def read(self, node: Any, v: Any) -> Any:
        from mc.abstract import FREE  # pylint: disable=import-outside-toplevel

        if node[1] == "global":
            if node[2] == "ZeroAddress":
                return "ADDR:ZERO"
            if node[2] == "CreatorAddress":
                return "ADDR:CREATOR"
            return FREE
        if self._match(node):
            return v
        return FREE


def excludes(src: str, det: str, how: Tuple[str, Optional[int]], cache: Dict[Any, bool]) -> bool:
    """Does the contract exclude det's dangerous value of the transaction it reads as ``how``
    at every accepting exit (no accepting abstract path under any dangerous value)?"""
    from mc import abstract  # pylint: disable=import-outside-toplevel
    from mc.asm import tokenize  # pylint: disable=import-outside-toplevel
    from mc.refcfg import RefGraph  # pylint: disable=import-outside-toplevel

    key = (src, det, how)
    if key in cache:
        return cache[key]
    g = RefGraph(tokenize(src))
    solver = abstract.Solver(g)
    if det == "rekey-to":
        field, dangerous = "RekeyTo", ["ADDR:ATTACKER"]
    elif det == "missing-fee-check":
        field, dangerous = "Fee", [272001, (1 << 64) - 1]
    elif det == "is-updatable":
        field, dangerous = "OnCompletion", [4]
    elif det == "is-deletable":
        field, dangerous = "OnCompletion", [5]
    else:
        cache[key] = False
        return False
    dim = MemberDim(field, how, dangerous)
    res = True
    abstract.CONST_FREE[0] = True  # upper reading: constant-only conditions go either way
    try:
        for v in dangerous:
            _, acc = solver.solve(v, dim)  # type: ignore
            if acc:
                res = False
    finally:
        abstract.CONST_FREE[0] = False
    cache[key] = res
    return res


_EXCL: Dict[Any, bool] = {}


def worker(cfg: Any, res: runner.Result) -> None:  # pylint: disable=too-many-locals,too-many-branches,too-many-statements
    from pathlib import Path  # pylint: disable=import-outside-toplevel
    from mc import harness  # pylint: disable=import-outside-toplevel
    from mc.machine import Explorer, Program  # pylint: disable=import-outside-toplevel
    from tealer.utils.command_line.group_config import read_config_from_file  # pylint: disable=import-outside-toplevel
    from tealer.utils.command_line.common import init_tealer_from_config  # pylint: disable=import-outside-toplevel

    d = _scratch()
    path = os.path.join(d, f"config-{os.getpid()}.yaml")
    with open(path, "w", encoding="utf-8") as f:
        f.write(config_yaml(cfg))
    reported: Dict[str, Set[str]] = {}
    try:
        harness.clear_caches()
        with harness.capture():
            tealer = init_tealer_from_config(read_config_from_file(Path(path)))
            for det in DETS:
                tealer.register_detector(harness.DETECTORS[det])
            outs = tealer.run_detectors()
        for det, out in zip(DETS, outs):
            ids: Set[str] = set()
            for o in out:
                ids |= {t.transacton_id for t in o.transactions}
            reported[det] = ids
    except BaseException as e:  # pylint: disable=broad-except
        res.violation("C13.crash", cfg, error=repr(e))
        return
    res.count("detector_runs", len(DETS))
    # --- all concrete groups consistent with the configuration
    need: Dict[Tuple[str, str], Any] = {}
    groups = 0
    for pos in positions(cfg):
        top = max(pos.values())
        for size in range(top + 1, min(top + 2, 16) + 1):
            restrict: Dict[Any, List[Any]] = {}
            for t in cfg:
                if t["type"] in TYPE_CODE:
                    restrict[("m", pos[t["id"]], "TypeEnum")] = [TYPE_CODE[t["type"]]]
            envs: List[Dict[Any, Any]] = [{"GroupSize": size}]
            for t in cfg:
                for cname in (t["lsig"], t["app"]):
                    if not cname:
                        continue
                    src = LSIGS.get(cname) or APPS[cname]
                    nxt: List[Dict[Any, Any]] = []
                    seen_env: Set[Any] = set()
                    for env in envs:
                        e0 = dict(env)
                        e0["GroupIndex"] = pos[t["id"]]
                        ex = Explorer(Program(src), initial_env=e0, group_mode=True, restrict=restrict, max_runs=5000)
                        for r in ex.explore():
                            if r.status != "accept":
                                continue
                            e1 = {k: v for k, v in r.env.items() if k != "GroupIndex" and not (isinstance(k, tuple) and k[1] == "self")}
                            key = frozenset(e1.items())
                            if key not in seen_env:
                                seen_env.add(key)
                                nxt.append(e1)
                        res.count("states", ex.stats.states)
                        res.count("transitions", ex.stats.transitions)
                    envs = nxt
            groups += len(envs)
            for env in envs:
                for t in cfg:
                    for det in DETS:
                        if (t["id"], det) in need or not eligible(t, det):
                            continue
                        m = pos[t["id"]]
                        if t["type"] in TYPE_CODE and env.get(("m", m, "TypeEnum"), TYPE_CODE[t["type"]]) != TYPE_CODE[t["type"]]:
                            continue
                        e2 = dict(env)
                        if t["type"] in TYPE_CODE:
                            e2[("m", m, "TypeEnum")] = TYPE_CODE[t["type"]]
                        if t["app"] and e2.get(("m", m, "TypeEnum"), 6) != 6:
                            continue
                        if dangerous_member(e2, m, det):
                            need[(t["id"], det)] = {"positions": pos, "size": size, "env": repr(env)}
    res.count("approved_groups", groups)
    for (tid, det), wit in need.items():
        res.count("dangerous_cases")
        if tid not in reported[det]:
            res.violation("C13.sound.not-reported", cfg, detector=det, txn=tid, witness=wit)
    # --- cleared
    by_id = {t["id"]: t for t in cfg}
    for t in cfg:
        for det in ("rekey-to", "missing-fee-check", "is-updatable", "is-deletable"):
            if not eligible(t, det):
                continue
            why = None
            for cname in (t["lsig"], t["app"]):
                if cname and excludes(LSIGS.get(cname) or APPS[cname], det, ("own", t["abs"]), _EXCL):
                    why = f"own contract {cname}"
            if why is None and t["abs"] is not None:
                for u in cfg:
                    for cname in (u["lsig"], u["app"]):
                        if cname and u is not t and excludes(LSIGS.get(cname) or APPS[cname], det, ("abs", t["abs"]), _EXCL):
                            why = f"{u['id']}:{cname} reads Gtxn[{t['abs']}]"
            if why is None:
                for u in cfg:
                    off = u["rel"].get(t["id"])
                    if off is None:
                        continue
                    for cname in (u["lsig"], u["app"]):
                        if cname and excludes(LSIGS.get(cname) or APPS[cname], det, ("rel", off), _EXCL):
                            why = f"{u['id']}:{cname} reads Gtxn[GroupIndex{off:+d}]"
            if why is not None:
                res.count("cleared_cases")
                if t["id"] in reported[det]:
                    res.violation("C13.cleared-but-reported", cfg, detector=det, txn=t["id"], why=why)
    res.outcome(tuple(sorted((d, tuple(sorted(v))) for d, v in reported.items())))
    if need:
        res.mark_nontrivial(repr(cfg))
    res.sample({"config": cfg, "reported": {d: sorted(v) for d, v in reported.items() if v}})
    _ = by_id


_ATTR = None


def attribute(entry: Any, v: Any) -> bool:
    global _ATTR  # pylint: disable=global-statement
    if _ATTR is None:
        from mc import findings  # pylint: disable=import-outside-toplevel

        _ATTR = findings.by_patch(worker)
    return _ATTR(entry, v)


def main(argv: List[str]) -> int:
    tier, seed = runner.tier_and_seed(argv)
    t0 = time.time()
    its = runner.rotate(items(tier), seed)
    total = runner.execute("mc.checks.c13", "worker", its, chunk=10)
    c = total.counters
    cov = {
        "programs": len(LSIGS) + len(APPS),
        "configurations": len(its),
        "states": c.get("states", 0),
        "transitions": c.get("transitions", 0),
        "traces_validated_against_impl": c.get("dangerous_cases", 0) + c.get("cleared_cases", 0),
        "exhaustive": True,
        "rule": "configurations of 1-3 transactions over %d logic-sig and %d application contracts x types x absolute indices x "
        "relative offsets (both directions); for each, every placement (positions 0-3, size up to max position + 2) and every "
        "member valuation approved by all configured contracts (product of E1 explorations); non-trivial = some eligible "
        "transaction can carry a dangerous value in an approved group" % (len(LSIGS), len(APPS)),
    }
    return runner.finish(PROP, tier, seed, "model_checking", total, t0, cov,
                         ["reference AVM + O2 are the trusted base",
                          "'cleared' is demanded only for relations stated in the configuration and for single-field detectors",
                          "eligibility (logic-sig present / application present / type filter) is taken as the tool defines it"])


if __name__ == "__main__":
    sys.exit(main(sys.argv[1:]))
