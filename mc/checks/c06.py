"""C06 - per-block GroupSize/GroupIndex sets are sound and exact.

Soundness: E1 over all (GroupSize, GroupIndex) pairs (completely, no quotient) - every
accepting run's size and index are in the sets of every block it passes through.
Exactness (direct-check fragment): O2 per-value reachability, see mc/abstract.py.
"""
import sys
import time
from typing import Any, List

from mc import findings, runner
from mc.gen import atoms as A
from mc.gen import spaces

PROP = "C06"


def alphabets(tier: str) -> Any:
    if tier == "quick":
        full = A.size_atoms((0, 1, 2, 16, 17)) + A.index_atoms((0, 1, 15, 16))
        small = [
            ["global GroupSize", "int 2", "=="],
            ["txn GroupIndex", "int 1", "<"],
            ["int 3", "global GroupSize", ">="],
            ["txn GroupIndex", "int 0", "!="],
        ]
    else:
        full = A.size_atoms((0, 1, 2, 3, 16, 17)) + A.index_atoms()
        small = [
            ["global GroupSize", "int 2", "=="],
            ["txn GroupIndex", "int 1", "<"],
            ["int 3", "global GroupSize", ">="],
            ["txn GroupIndex", "int 0", "!="],
            ["global GroupSize", "int 16", "<"],
            ["int 2", "txn GroupIndex", "<="],
        ]
    return full, small


def items(tier: str) -> List[Any]:
    full, small = alphabets(tier)
    # conditions with an operand produced in another block are still direct checks (the outside operand is free)
    for a in (small[0], small[1], ["global GroupSize", "int 2", "!="], ["txn GroupIndex", "int 1", ">="]):
        full = full + A.cross_block(a)
    out: List[Any] = [("direct", s) for s in spaces.layered(full, small, tier)]
    # soundness-only: atoms routed through stack shuffles
    sh = []
    for a in small[:2] + [["global GroupSize", "int 2", "!="], ["txn GroupIndex", "int 1", ">="]]:
        sh += A.shuffled(a)
    seen = set(s for _, s in out)
    for s in spaces.layered(sh, sh[:2], tier, l2_size=2, l3=False, max_subs=1, chains=False):
        if s not in seen:
            seen.add(s)
            out.append(("shuffle", s))
    # soundness-only: comparisons whose operand is ANOTHER transaction's GroupIndex (a constant of the
    # program, not the governed transaction's index) - they must not be attributed to `txn GroupIndex`
    decoys = [
        ["gtxn 1 GroupIndex", "int 1", "=="],
        ["int 1", "gtxns GroupIndex", "int 1", "=="],
        ["gtxn 0 GroupIndex", "int 0", "=="],
        ["gtxn 2 GroupIndex", "int 2", ">="],
        ["int 1", "gtxn 1 GroupIndex", "=="],
        ["gtxn 0 GroupIndex", "int 1", "<"],
        ["txn GroupIndex", "gtxns GroupIndex", "int 3", "<"],
    ]
    for s in spaces.layered(decoys, decoys[:2], tier, l2_size=2, l3=False, max_subs=1, chains=False):
        if s not in seen:
            seen.add(s)
            out.append(("shuffle", s))
    # soundness-only: multi-way branches consuming a tracked condition (or the tracked field itself)
    for s in spaces.multiway(list(full) + [["txn GroupIndex"], ["global GroupSize"]]):
        if s not in seen:
            seen.add(s)
            out.append(("shuffle", s))
    # soundness-only: loops that really iterate (counter conditions), incl. loops whose header is a
    # subroutine's entry label
    for s in spaces.counted_loops(small[:2] + [["global GroupSize", "int 2", "!="]], tier):
        if s not in seen:
            seen.add(s)
            out.append(("shuffle", s))
    from mc.gen import raw  # pylint: disable=import-outside-toplevel

    for atom in [["global GroupSize", "int 2", "=="], ["txn GroupIndex", "int 1", "<"], ["global GroupSize", "int 2", "!="]]:
        for s in raw.with_atom(atom, 4 if tier == "quick" else 5):
            if s not in seen:
                seen.add(s)
                out.append(("g1a", s))
    for s in spaces.unresolvable_constants([x for m, x in out if m == "direct"], 3000 if tier == "quick" else 20000):
        if s not in seen:
            seen.add(s)
            out.append(("shuffle", s))
    return out


def worker_init() -> None:
    from mc import harness  # noqa: F401  pylint: disable=import-outside-toplevel,unused-import


def worker(item: Any, res: runner.Result) -> None:  # pylint: disable=too-many-locals,too-many-branches
    from mc import sem  # pylint: disable=import-outside-toplevel
    from mc import abstract  # pylint: disable=import-outside-toplevel

    mode, src = item
    if mode == "g1a":
        from mc.asm import tokenize  # pylint: disable=import-outside-toplevel
        from mc.refcfg import RefGraph  # pylint: disable=import-outside-toplevel

        if not RefGraph(tokenize(src)).entered_only_through_callsub():
            res.count("filtered_bodies_not_entered_only_through_callsub")
            return
    try:
        case = sem.Case(src)
    except BaseException as e:  # pylint: disable=broad-except
        res.violation("C06.analysis-crash", item, error=repr(e))
        return
    case.stats_into(res)
    nontrivial = False
    outcome = []
    # soundness
    for run in case.accepting:
        pairs = sem.size_index_pairs(run)
        sizes = {s for s, _ in pairs}
        idxs = {g for _, g in pairs}
        for b in case.visited(run):
            ctx = case.ctx(b)
            ms = sizes - set(ctx.group_sizes)
            mi = idxs - set(ctx.group_indices)
            if ms:
                res.violation("C06.sound.size-missing", item, block=b.entry_instr.line, missing=sorted(ms),
                              listed=sorted(ctx.group_sizes), env=repr(run.env))
            if mi:
                res.violation("C06.sound.index-missing", item, block=b.entry_instr.line, missing=sorted(mi),
                              listed=sorted(ctx.group_indices), env=repr(run.env))
            res.count("block_run_checks")
    # coupling invariant on every block
    for b in case.function.blocks:
        ctx = case.ctx(b)
        gs, gi = sorted(ctx.group_sizes), sorted(ctx.group_indices)
        if gi and (not gs or gi[-1] >= gs[-1]):
            res.violation("C06.index-without-larger-size", item, block=b.entry_instr.line, sizes=gs, indices=gi)
        if len(set(gs)) != len(gs) or len(set(gi)) != len(gi):
            res.violation("C06.duplicates-in-set", item, block=b.entry_instr.line)
        if any(s < 1 or s > 16 for s in gs) or any(i < 0 or i > 15 for i in gi):
            res.violation("C06.value-out-of-range", item, block=b.entry_instr.line, sizes=gs, indices=gi)
        outcome.append((b.entry_instr.line, tuple(gs), tuple(gi)))
        if len(gs) not in (0, 16) or len(gi) not in (0, 16):
            nontrivial = True
    # exactness on the direct-check fragment
    if mode == "direct" or (mode == "g1a" and not sem.can_fall_off_end(case.lines)):
        abstract.check_c06_exact(case, item, res)
    res.outcome(tuple(outcome))
    if nontrivial:
        res.mark_nontrivial(src)
    res.sample({"program": src, "contexts": [[l, list(s), list(i)] for l, s, i in outcome]})


_ATTR = None


def attribute(entry: Any, v: Any) -> bool:
    global _ATTR  # pylint: disable=global-statement
    if _ATTR is None:
        _ATTR = findings.by_repair(worker, lambda it: it[1], lambda it, s: (it[0], s))
    return _ATTR(entry, v)


def main(argv: List[str]) -> int:
    tier, seed = runner.tier_and_seed(argv)
    t0 = time.time()
    its = runner.rotate(items(tier), seed)
    total = runner.execute("mc.checks.c06", "worker", its, chunk=40)
    c = total.counters
    cov = {
        "programs": len(its),
        "states": c.get("states", 0) + c.get("o2_states", 0),
        "transitions": c.get("transitions", 0) + c.get("o2_transitions", 0),
        "traces_validated_against_impl": c.get("block_run_checks", 0) + c.get("o2_block_checks", 0),
        "exhaustive": c.get("capped_programs", 0) == 0,
        "rule": "layered G2 spaces (mc/gen/spaces.py) over GroupSize/GroupIndex atoms, all 136 (size,index) pairs; "
        "non-trivial = some block has a set that is neither empty nor full",
    }
    return runner.finish(
        PROP, tier, seed, "model_checking", total, t0, cov,
        ["reference AVM + O2 abstract reachability are the trusted base",
         "exactness is demanded on direct-check programs only; multi-context blocks are bracketed (exact <= tealer <= context-insensitive)"],
    )


if __name__ == "__main__":
    sys.exit(main(sys.argv[1:]))
