"""C12 - a function cut out by a dispatch path has exactly that path's executions."""
import itertools
import sys
import time
from typing import Any, Dict, List, Optional, Set, Tuple

from mc import findings, runner
from mc.gen import atoms as A
from mc.gen import core, raw, spaces

PROP = "C12"
TIER = "quick"
Z = "global ZeroAddress"


def items(tier: str) -> List[Any]:
    out: List[Any] = []
    seen: Set[str] = set()
    # atoms that avoid the recorded known findings (no constant-first ordered GroupSize/GroupIndex
    # comparison, no ApplicationID/OnCompletion test): C12 is about the cut, not about those
    small = [
        ["txn RekeyTo", Z, "=="],
        ["global GroupSize", "int 2", "=="],
        ["txn Fee", "int 1000", "<="],
        ["txn TypeEnum", "int pay", "=="],
        ["txn GroupIndex", "int 1", "<"],
    ]
    if tier == "quick":
        small = small[:3]
    for s in spaces.layered(small, small, tier, l2_size=3, fall_off=False, l3=tier != "quick",
                            l2_top_alpha=1, max_subs=1 if tier == "quick" else 2,
                            kinds=("assert", "ret1", "err", "if", "while", "call") if tier == "quick" else ("assert", "ret", "ret1", "err", "if", "while", "call")):
        if s not in seen:
            seen.add(s)
            out.append(("g2", s))
    # loops that really iterate (counter conditions): runs that take back edges, dispatch paths through loop headers
    for s in spaces.counted_loops(small[:2], tier, max_size=2):
        if s not in seen:
            seen.add(s)
            out.append(("g2", s))
    # hand-written dispatchers: 2-3 tests in a row, each leaving the path towards one of two shared targets
    # (several departures of one dispatch path lead to the SAME off-path block)
    for k in (2, 3):
        for combo in itertools.product([(p_, t_) for p_ in ("bz", "bnz") for t_ in ("rej", "acc")], repeat=k):
            body = "".join(f"txn FirstValid\nint {7 + i}\n>\n{p_} {t_}\n" for i, (p_, t_) in enumerate(combo))
            s = "#pragma version 8\n" + body + "txn RekeyTo\n" + Z + "\n==\nreturn\nrej:\nerr\nacc:\nint 1\nreturn\n"
            if s not in seen:
                seen.add(s)
                out.append(("raw", s))
    gens = [raw.space(4, 2), raw.space(3, 2, multi=True), (s for s in raw.programs(4, 2, multi=True) if "switch" in s or "match" in s)]
    if tier != "quick":
        gens = [raw.space(4, 2), raw.space(4, 2, multi=True)]
    for gen in gens:
        for s in gen:
            if tier == "quick" and s.count("\n") > 4 and not ("bz " in s or "bnz " in s):
                continue  # quick tier: 4-line layouts only when they branch (several dispatch paths)
            if s not in seen:
                seen.add(s)
                out.append(("raw", s))
    return out


def worker_init() -> None:
    from mc import harness  # noqa: F401  pylint: disable=import-outside-toplevel,unused-import


def dispatch_paths(teal: Any, max_len: int) -> List[List[Any]]:
    """Every simple path of main-graph blocks starting at the entry, up to max_len blocks."""
    out: List[List[Any]] = []
    entry = teal.main.entry

    def rec(path: List[Any]) -> None:
        out.append(list(path))
        if len(path) >= max_len:
            return
        for n in path[-1].next:
            if not any(n is p for p in path):
                path.append(n)
                rec(path)
                path.pop()

    rec([entry])
    return out



def cut_source(lines: List[Any], path: List[Any], blk_of_line: Dict[int, Any]) -> Optional[Tuple[str, Dict[int, int]]]:
    """The contract rewritten so that every departure from the dispatch path before its last block
    leads to an `err`: off-path jump targets are replaced by a fresh label `cutE` (an `err` placed
    behind an unconditional terminator, so nothing falls into it), an off-path fall-through gets
    an `err` inserted behind the branch.  Returns (source, old line -> new line), or None when
    there is no place for the `cutE` block."""
    label_line = {l.args[0]: l.lineno for l in lines if l.op == "label"}
    by_no = {l.lineno: (k, l) for k, l in enumerate(lines)}
    replace: Dict[int, str] = {}
    err_after: Set[int] = set()
    need_e = False
    for i in range(len(path) - 1):
        b, n = path[i], path[i + 1]
        k, tok = by_no[b.instructions[-1].line]
        if tok.op not in ("b", "bz", "bnz", "switch", "match"):
            continue
        new_args = []
        for a in tok.args:
            if blk_of_line.get(label_line.get(a, -1)) is n:
                new_args.append(a)
            else:
                new_args.append("cutE")
                need_e = True
        replace[tok.lineno] = " ".join([tok.op] + new_args)
        if tok.op != "b" and k + 1 < len(lines) and blk_of_line.get(lines[k + 1].lineno) is not n:
            err_after.add(tok.lineno)
    e_after: Optional[int] = None
    if need_e:
        if lines[-1].op in ("b", "return", "err", "retsub"):
            e_after = lines[-1].lineno
        else:
            for l in lines:
                if l.op in ("b", "return", "err", "retsub"):
                    e_after = l.lineno
                    break
        if e_after is None:
            return None
    out: List[str] = []
    lmap: Dict[int, int] = {}
    for l in lines:
        out.append(replace.get(l.lineno, l.text))
        lmap[l.lineno] = len(out)
        if l.lineno in err_after:
            out.append("err")
        if e_after == l.lineno:
            out += ["cutE:", "err"]
    return "\n".join(out) + "\n", lmap


def _cmp_snapshot(ctx: Any) -> Dict[str, Any]:
    """Context fields compared with the cut program's: everything in thorough; in quick the block's own
    context, the sub-contexts of positions 0-2 and of offsets -2..2."""
    from mc import harness  # pylint: disable=import-outside-toplevel

    if TIER != "quick":
        return harness.full_ctx_snapshot(ctx)
    s = harness.ctx_snapshot(ctx)
    for i in range(3):
        s[f"gtxn{i}"] = harness.ctx_snapshot(ctx.gtxn_context(i))
        s[f"abs{i}"] = harness.ctx_snapshot(ctx.absolute_context(i))
    for k in (-2, -1, 1, 2):
        s[f"rel{k}"] = harness.ctx_snapshot(ctx.relative_context(k))
    return s


def function_snapshot(function: Any) -> Any:
    from mc import harness  # pylint: disable=import-outside-toplevel

    main_ids = set(id(b) for b in function.main.blocks)
    blocks = []
    for b in function.blocks:
        blocks.append(
            (
                id(b) in main_ids,
                b.idx,
                tuple((i.line, str(i)) for i in b.instructions),
                tuple(x.idx for x in b.next),
                tuple(sorted(x.idx for x in b.prev)),
                repr(sorted(harness.full_ctx_snapshot(function.transaction_context(b)).items(), key=repr)),
            )
        )
    return (function.entry.idx, tuple(sorted(function.subroutines.keys())), tuple(sorted(blocks, key=repr)))


def worker(item: Any, res: runner.Result) -> None:  # pylint: disable=too-many-locals,too-many-branches,too-many-statements
    from mc import harness, sem  # pylint: disable=import-outside-toplevel
    from mc.asm import tokenize  # pylint: disable=import-outside-toplevel
    from mc.refcfg import RefGraph  # pylint: disable=import-outside-toplevel
    from mc.machine import Explorer, Program  # pylint: disable=import-outside-toplevel
    from tealer.teal.parse_functions import construct_function  # pylint: disable=import-outside-toplevel
    from tealer.teal.instructions.instructions import TealerCustomErrInstruction  # pylint: disable=import-outside-toplevel

    mode, src = item
    lines = tokenize(src)
    g = RefGraph(lines)
    if not g.entered_only_through_callsub():
        res.count("filtered_bodies_not_entered_only_through_callsub")
        return
    if any(l.op == "retsub" and g.block_of[i] in g.main_blocks for i, l in enumerate(lines)):
        # retsub outside a subroutine: nothing to cut that C17 does not already cover
        pass
    try:
        teal, _ = harness.parse(src)
    except BaseException as e:  # pylint: disable=broad-except
        res.violation("C12.parse-crash", item, error=repr(e))
        return
    before = harness.graph_snapshot(teal)
    paths = dispatch_paths(teal, 4 if mode != "quick-raw" else 3)
    if len(paths) > 12:
        res.count("programs_with_more_than_12_paths")
    prog = Program(src, lines)
    ex = Explorer(prog, max_runs=30000)
    runs = [r for r in ex.explore() if r.status == "accept"]
    res.count("states", ex.stats.states)
    res.count("transitions", ex.stats.transitions)
    line_idx = {l.lineno: i for i, l in enumerate(lines)}
    alone: Dict[Tuple[int, ...], Any] = {}
    main_by_idx = {b.idx: b for b in teal.main.blocks}
    contract_main_map = harness.blocks_by_line(teal.main.blocks)
    for path in paths:
        pid = tuple(b.idx for b in path)
        names = [f"B{i}" for i in pid]
        harness.clear_caches()
        try:
            with harness.capture():
                fn = construct_function(teal, names, "f_" + "_".join(map(str, pid)))
        except BaseException as e:  # pylint: disable=broad-except
            res.violation("C12.construct-crash", item, path=list(pid), error=repr(e))
            continue
        res.count("functions_built")
        alone[pid] = function_snapshot(fn)
        fmain = {b.idx: b for b in fn.main.blocks}
        # expected cut graph
        on_path_next = {pid[i]: pid[i + 1] for i in range(len(pid) - 1)}
        exp_next: Dict[int, List[Any]] = {}
        for b in teal.main.blocks:
            nxt: List[Any] = []
            for n in b.next:
                if b.idx in on_path_next and n.idx != on_path_next[b.idx]:
                    nxt.append("ERR")
                else:
                    nxt.append(n.idx)
            exp_next[b.idx] = nxt
        reach = {0}
        work = [0]
        while work:
            cur = work.pop()
            for n in exp_next[cur]:
                if n != "ERR" and n not in reach:
                    reach.add(n)
                    work.append(n)
        real = {i: b for i, b in fmain.items() if not isinstance(b.instructions[0], TealerCustomErrInstruction)}
        if set(real) != reach:
            res.violation("C12.function-main-blocks", item, path=list(pid), expected=sorted(reach), actual=sorted(real))
            continue
        if fn.entry.idx != 0 or fn.entry is not fmain.get(0):
            res.violation("C12.function-entry", item, path=list(pid))
        for i in sorted(reach):
            fb, ob = real[i], main_by_idx[i]
            if [(x.line, str(x)) for x in fb.instructions] != [(x.line, str(x)) for x in ob.instructions]:
                res.violation("C12.block-text-or-lines-differ", item, path=list(pid), block=i)
            act = []
            for n in fb.next:
                if isinstance(n.instructions[0], TealerCustomErrInstruction):
                    if len(n.instructions) != 1 or n.next:
                        res.violation("C12.error-block-shape", item, path=list(pid), block=i)
                    act.append("ERR")
                else:
                    act.append(n.idx)
            if act != exp_next[i]:
                res.violation("C12.edges-differ", item, path=list(pid), block=i, expected=exp_next[i], actual=act)
            if fb.is_callsub_block and fb.called_subroutine is not ob.called_subroutine:
                res.violation("C12.callsub-target-not-shared", item, path=list(pid), block=i)
        for name, sub in fn.subroutines.items():
            if teal.subroutines.get(name) is not sub:
                res.violation("C12.subroutine-not-shared", item, path=list(pid), sub=name)
        # "and no others": exactly the subroutines some retained block can call (transitively)
        exp_subs: set = set()
        todo = [b for b in real.values()]
        while todo:
            blk = todo.pop()
            if blk.is_callsub_block and blk.called_subroutine is not None and blk.called_subroutine.name not in exp_subs:
                exp_subs.add(blk.called_subroutine.name)
                todo.extend(blk.called_subroutine.blocks)
        if set(fn.subroutines) != exp_subs:
            res.violation("C12.function-subroutines", item, path=list(pid), expected=sorted(exp_subs), actual=sorted(fn.subroutines))
        sub_ids = set(id(b) for s in fn.subroutines.values() for b in s.blocks) | set(id(b) for b in fn.main.blocks)
        if any(id(b) not in sub_ids for b in fn.blocks):
            res.violation("C12.function-blocks-outside-function", item, path=list(pid))
        in_fn = set(id(b) for b in fn.blocks)
        for i, b in fmain.items():
            if id(b) not in in_fn:
                res.violation("C12.main-block-not-in-function-blocks", item, path=list(pid), block=i)
        # "exactly that path's executions": the function's contexts equal those tealer computes for the
        # contract rewritten so that every departure from the path leads to `err` (differential)
        all_blk = harness.blocks_by_line([b for s_ in teal.subroutines.values() for b in s_.blocks] + list(teal.main.blocks))
        cut = cut_source(lines, path, all_blk) if (len(path) >= 2 and (mode == "g2" or "rej:" in src)) else "skip"
        if cut == "skip":
            pass
        elif cut is None:
            res.count("cut_program_not_expressible")
        else:
            cut_src, lmap = cut
            try:
                _, _, fn_cut, _ = harness.analyze(cut_src)
                cmain = harness.blocks_by_line(fn_cut.main.blocks)
                csub: Dict[int, Any] = {}
                for sub in fn_cut.subroutines.values():
                    csub.update(harness.blocks_by_line(sub.blocks))
                res.count("cut_programs_analysed")
                fsubs = [b for sub in fn.subroutines.values() for b in sub.blocks]
                for is_main, blk in [(True, x) for x in real.values()] + [(False, x) for x in fsubs]:
                    nl = lmap.get(blk.instructions[0].line)
                    other = (cmain if is_main else csub).get(nl)
                    if other is None:
                        res.violation("C12.function-block-not-in-cut-program", item, path=list(pid), block=blk.idx, cut_program=cut_src)
                        continue
                    a_ = _cmp_snapshot(fn.transaction_context(blk))
                    b_ = _cmp_snapshot(fn_cut.transaction_context(other))
                    res.count("cut_contexts_compared")
                    if a_ != b_:
                        diff = sorted(k_ for k_ in a_ if a_[k_] != b_[k_])
                        res.violation("C12.function-context-differs-from-cut-program", item, path=list(pid), block=blk.idx, fields=diff,
                                      function={k_: repr(a_[k_])[:300] for k_ in diff[:3]}, cut={k_: repr(b_[k_])[:300] for k_ in diff[:3]},
                                      cut_program=cut_src)
                        break
            except BaseException as e:  # pylint: disable=broad-except
                res.violation("C12.cut-program-crash", item, path=list(pid), error=repr(e), cut_program=cut_src)
        # contexts: sound w.r.t. exactly the executions whose main-level walk starts with the path
        main_map = harness.blocks_by_line(list(real.values()))
        sub_map: Dict[int, Any] = {}
        for sub in fn.subroutines.values():
            sub_map.update(harness.blocks_by_line(sub.blocks))

        class _C:  # minimal case view for sem helpers
            pass

        cv = _C()
        cv.prog = prog  # type: ignore
        nsel = 0
        for run in runs:
            walk: List[int] = []
            vis: List[Any] = []
            seen_b: Set[int] = set()
            depth = 0
            for pc in run.pcs:
                l = lines[pc]
                if depth == 0:
                    ob = contract_main_map.get(l.lineno)
                    if ob is not None and (not walk or walk[-1] != ob.idx or l.lineno == ob.entry_instr.line):
                        walk.append(ob.idx)
                tb = (main_map if depth == 0 else sub_map).get(l.lineno)
                if tb is not None:
                    if id(tb) not in seen_b:
                        seen_b.add(id(tb))
                        vis.append(tb)
                if l.op == "callsub":
                    depth += 1
                elif l.op == "retsub":
                    depth -= 1
            if tuple(walk[: len(pid)]) != pid:
                continue
            # a run that comes back to a path block (a dispatch path through a loop) and leaves the path there is
            # cut off by the error blocks the property itself prescribes: only walks of the cut graph are demanded
            if any(walk[j] == pid[i] and walk[j + 1] != pid[i + 1] for i in range(len(pid) - 1) for j in range(len(walk) - 1)):
                res.count("runs_leaving_the_path_on_a_later_visit")
                continue
            nsel += 1
            for clause, det in sem.soundness_problems(cv, run, vis, fn.transaction_context):
                res.violation("C12.context." + clause, item, path=list(pid), env=repr(run.env), **det)
        res.count("runs_matched_to_functions", nsel)
    # non-interference: the contract's own graph is unchanged
    after = harness.graph_snapshot(teal)
    if after != before:
        res.violation("C12.contract-graph-changed", item, paths=[[b.idx for b in p] for p in paths])
    # independence: same function whatever else was built, in whatever order
    plist = [tuple(b.idx for b in p) for p in paths][:4]
    orders: List[Tuple[Tuple[int, ...], ...]] = []
    if len(plist) >= 2:
        if TIER == "quick":
            # the functions above were built one after the other in path order on one contract; the quick tier adds the
            # reversed order of the first three paths (every pair in the opposite relative order), thorough all orders
            orders.append(tuple(reversed(plist[:3])))
        else:
            orders += list(itertools.permutations(plist[:3], min(3, len(plist[:3]))))
            orders.append(tuple(reversed(plist)))
    for order in orders:
        try:
            teal2, _ = harness.parse(src)
            for pid in order:
                harness.clear_caches()
                with harness.capture():
                    fn2 = construct_function(teal2, [f"B{i}" for i in pid], "f_" + "_".join(map(str, pid)))
                res.count("functions_built")
                if pid in alone and function_snapshot(fn2) != alone[pid]:
                    res.violation("C12.function-depends-on-other-functions", item, path=list(pid), order=[list(p) for p in order])
        except BaseException as e:  # pylint: disable=broad-except
            res.violation("C12.construct-crash", item, order=[list(p) for p in order], error=repr(e))
        res.count("orders_tried")
    # the same functions built through a group configuration (one contract listing all of them, in both
    # listing orders): each name must denote the function of its own dispatch path
    if len(alone) >= 1 and (mode == "g2" or "rej:" in src):
        import os  # pylint: disable=import-outside-toplevel
        from pathlib import Path  # pylint: disable=import-outside-toplevel
        from tealer.utils.command_line.common import init_tealer_from_config  # pylint: disable=import-outside-toplevel
        from tealer.utils.command_line.group_config import GroupConfig, GroupConfigContract, GroupConfigFunction  # pylint: disable=import-outside-toplevel

        d = os.environ.get("TEALER_ROOT_OUTPUT_DIR", os.path.join(runner.WORK_DIR, "c12"))
        os.makedirs(d, exist_ok=True)
        fpath = os.path.join(d, f"c12-{os.getpid()}.teal")
        with open(fpath, "w", encoding="utf-8") as fh:
            fh.write(src)
        pids = sorted(alone)[:8] if TIER != "quick" else sorted(alone)[:5]
        for order_ in (pids, list(reversed(pids))) if (len(pids) > 1 and TIER != "quick") else (list(reversed(pids)),):
            fcfgs = [GroupConfigFunction("f_" + "_".join(map(str, pid)), [f"B{i}" for i in pid]) for pid in order_]
            ctype = "LogicSig" if "LogicSig" in str(teal.contract_type) else "ApprovalProgram"
            cfg = GroupConfig("g", [GroupConfigContract("c", Path(fpath), ctype, 8, [], fcfgs)], [])
            try:
                harness.clear_caches()
                with harness.capture():
                    tl = init_tealer_from_config(cfg)
                fns = tl.contracts["c"].functions
                res.count("config_functions_built", len(fcfgs))
                for pid in order_:
                    got = fns.get("f_" + "_".join(map(str, pid)))
                    if got is None or function_snapshot(got) != alone[pid]:
                        res.violation("C12.config-function-is-not-its-dispatch-path", item, path=list(pid), listed=[list(x) for x in order_])
                        break
            except BaseException as e:  # pylint: disable=broad-except
                res.violation("C12.construct-crash", item, listed=[list(x) for x in order_], error=repr(e), route="init_tealer_from_config")
    res.outcome((len(paths), tuple(sorted(alone))))
    if len(paths) > 1:
        res.mark_nontrivial(src)
    res.sample({"program": src, "dispatch_paths": [["B%d" % b.idx for b in p] for p in paths][:6]})


_ATTR = None


def attribute(entry: Any, v: Any) -> bool:
    global _ATTR  # pylint: disable=global-statement
    if _ATTR is None:
        _ATTR = findings.by_repair(worker, lambda it: it[1], lambda it, s: (it[0], s))
    return _ATTR(entry, v)


def main(argv: List[str]) -> int:
    global TIER  # pylint: disable=global-statement
    tier, seed = runner.tier_and_seed(argv)
    TIER = tier  # inherited by the forked workers
    t0 = time.time()
    its = runner.rotate(items(tier), seed)
    total = runner.execute("mc.checks.c12", "worker", its, chunk=20)
    c = total.counters
    cov = {
        "programs": len(its),
        "states": c.get("states", 0),
        "transitions": c.get("transitions", 0),
        "traces_validated_against_impl": c.get("runs_matched_to_functions", 0) + c.get("functions_built", 0),
        "exhaustive": True,
        "rule": "G2 programs over a mixed small alphabet + G1 raw layouts x every simple dispatch path (<= 4 blocks) of the main "
        "graph x orders of up to 3 functions; non-trivial = program has more than one dispatch path",
    }
    return runner.finish(PROP, tier, seed, "model_checking", total, t0, cov,
                         ["reference AVM is the trusted base for the context clauses",
                          "alphabet avoids the constructs of the recorded known findings (mirrored int comparison, ApplicationID/OnCompletion tests)"])


if __name__ == "__main__":
    sys.exit(main(sys.argv[1:]))
