"""C14 - results depend on the input only: no history, order or hash-seed effects.

Enumerated on the real code, each case in a process forked from a pristine worker:
 (a) every sequence of up to 3 contracts from a pool chosen to collide on shared state,
     analysed in one process without the harness clearing any cache;
 (b) detector orders: every permutation of every 3-subset containing group-size-check, every
     ordered pair, every detector twice;
 (c) iteration orders: every permutation (<= 5 elements) / every rotation and the reversal
     (longer) of `called_subroutines` and of the initial forward/backward worklists;
 (d) PYTHONHASHSEED in {0,1,2,3,VERIF_SEED} in fresh interpreter processes (a sample, declared
     as such - the deciding step for order effects is (c)).
Oracle: differential - the snapshot of contract X equals the snapshot of X analysed alone in a
fresh interpreter.
"""
import hashlib
import itertools
import json
import os
import pickle
import subprocess
import sys
import time
from typing import Any, Callable, Dict, List, Optional, Sequence, Tuple

from mc import runner
from mc.gen.atoms import LIT1

PROP = "C14"
Z = "global ZeroAddress"
P = "#pragma version 8\n"

POOL: List[str] = [
    # 0: != on GroupSize / GroupIndex (list.remove on a copy of the universal set)
    P + "global GroupSize\nint 3\n!=\nassert\ntxn GroupIndex\nint 0\n!=\nbz out\nglobal GroupSize\nint 16\n!=\nassert\nout:\nint 1\nreturn\n",
    # 1: same block shapes as 0 with other constants
    P + "global GroupSize\nint 2\n!=\nassert\ntxn GroupIndex\nint 1\n!=\nbz out\nglobal GroupSize\nint 15\n!=\nassert\nout:\nint 1\nreturn\n",
    # 2: three subroutines, shared and nested
    P + "callsub a\ncallsub b\ncallsub c\ncallsub a\nint 1\nreturn\na:\ntxn RekeyTo\n" + Z + "\n==\nassert\ncallsub c\nretsub\nb:\ntxn Fee\nint 1000\n<=\n"
        "bz bb\ncallsub c\nbb:\nretsub\nc:\ntxn FirstValid\nint 7\n>\nbz cc\nint 7\npop\ncc:\nretsub\n",
    # 3: group-size contract with absolute and relative reads
    P + "gtxn 1 RekeyTo\n" + Z + "\n==\nassert\ntxn GroupIndex\nint 1\n-\ngtxns Fee\nint 1000\n<=\nassert\nint 0\ngtxns Sender\naddr " + LIT1 + "\n==\n"
        "bnz ok\nglobal GroupSize\nint 2\n==\nassert\nok:\nint 1\nreturn\n",
    # 4: address / fee / kinds with a loop
    P + "loop:\ntxn TypeEnum\nint pay\n==\nbz done\ntxn CloseRemainderTo\n" + Z + "\n==\nassert\ntxn FirstValid\nint 7\n>\nbnz loop\ndone:\n"
        "txn Fee\nint 272000\n<=\ntxn RekeyTo\n" + Z + "\n==\n&&\nreturn\n",
    # 5: application with update / delete handling
    P + "global CreatorAddress\ntxn Sender\n==\nbnz admin\ntxn OnCompletion\nint UpdateApplication\n!=\nassert\ntxn OnCompletion\nint DeleteApplication\n"
        "!=\nassert\nadmin:\ncallsub s\nint 1\nreturn\ns:\ntxn TypeEnum\nint appl\n==\nassert\nretsub\n",
    # 6: intcblock constants
    P + "intcblock 0 1 1000\ntxn Fee\nintc_2\n<=\nassert\ntxn GroupIndex\nintc_0\n==\nassert\nintc_1\nreturn\n",
    # 8: patterns of the instruction-reporting detectors (constant gtxns, self access, sender access)
    P + "int 1\ngtxns Fee\nint 1000\n<=\nassert\ntxn GroupIndex\ngtxns RekeyTo\n" + Z + "\n==\nassert\nint 0\ngtxns Sender\ntxn Sender\n==\nreturn\n",
    # 7: two subroutines called from a loop
    P + "l:\ncallsub x\ntxn FirstValid\nint 7\n>\nbnz l\ncallsub y\nint 1\nreturn\nx:\ntxn AssetCloseTo\n" + Z + "\n==\nassert\nretsub\ny:\ncallsub x\nretsub\n",
    # 9: multi-way branches (successor order must follow the label list, not a set of names)
    P + "txn FirstValid\nswitch zeta alpha mid\ntxn RekeyTo\n" + Z + "\n==\nassert\nint 1\nreturn\nzeta:\nint 1\nint 2\ntxn LastValid\nmatch q_b q_a\n"
        "int 1\nreturn\nalpha:\ntxn Fee\nint 1000\n<=\nreturn\nmid:\nint 1\nreturn\nq_a:\nint 1\nreturn\nq_b:\ntxn RekeyTo\n" + Z + "\n==\nreturn\n",
    # 10: validates its own RekeyTo and Fee through `gtxn 0` with the own index pinned, nothing else
    P + "txn GroupIndex\nint 0\n==\nassert\ngtxn 0 RekeyTo\n" + Z + "\n==\nassert\ngtxn 0 Fee\nint 1000\n<=\nassert\nint 1\nreturn\n",
]
ALWAYS = [9, 10]  # pool members that take part in the per-contract items of the quick tier too
DETS = ("rekey-to", "can-close-account", "can-close-asset", "missing-fee-check", "is-updatable", "is-deletable",
        "unprotected-updatable", "unprotected-deletable", "group-size-check", "constant-gtxn", "sender-access", "self-access")


def snapshot(src: str, name: str, dets: Sequence[str] = DETS, clear: bool = False) -> Dict[str, Any]:
    """Everything observable about one contract analysed now, in this process."""
    from mc import harness  # pylint: disable=import-outside-toplevel
    from tealer.utils.command_line.common import init_tealer_from_single_contract  # pylint: disable=import-outside-toplevel

    if clear:
        harness.clear_caches()
    with harness.capture() as cap:
        tealer = init_tealer_from_single_contract(src, name)
    teal = tealer.contracts[name]
    function = teal.functions[name]

    def contexts(full: bool) -> str:
        main_ids = set(id(b) for b in function.main.blocks)
        rows = []
        snap = harness.full_ctx_snapshot if full else harness.ctx_snapshot
        for b in function.blocks:
            ctx = function.transaction_context(b)
            extra = () if full else tuple(repr(harness.ctx_snapshot(ctx.gtxn_context(i))) for i in (0, 1, 15))
            rows.append((id(b) in main_ids, b.idx, repr(sorted(snap(ctx).items(), key=repr)), extra))
        return hashlib.sha1(repr(sorted(rows)).encode()).hexdigest()

    out: Dict[str, Any] = {"graph": hashlib.sha1(repr(harness.graph_snapshot(teal)).encode()).hexdigest(), "contexts": contexts(True),
                           "contexts_light": contexts(False),
                           "stdout": hashlib.sha1((cap.out + cap.err).encode()).hexdigest(), "detectors": {}, "ctx_after": {}}
    for det in dets:
        outs = harness.run_detector_outputs(tealer, det)
        paths = [[b.idx for b in p] for o in outs for p in getattr(o, "paths", [])]
        js = json.dumps([o.to_json() for o in outs], indent=2)
        out["detectors"][det] = (paths, hashlib.sha1(js.encode()).hexdigest())
        out["ctx_after"][det] = contexts(False)
    out["contexts_end"] = contexts(True)
    return out


def multi_contract(order: Sequence[int]) -> Dict[int, Any]:
    """The pool contracts `order` loaded into one Tealer through a group configuration (one
    transaction per contract); group-size-check reports paths per contract."""
    import tempfile  # pylint: disable=import-outside-toplevel
    from pathlib import Path  # pylint: disable=import-outside-toplevel
    from mc import harness  # pylint: disable=import-outside-toplevel
    from tealer.teal.parse_teal import parse_teal  # pylint: disable=import-outside-toplevel
    from tealer.utils.command_line.group_config import read_config_from_file  # pylint: disable=import-outside-toplevel
    from tealer.utils.command_line.common import init_tealer_from_config  # pylint: disable=import-outside-toplevel
    from tealer.utils.teal_enums import ContractType  # pylint: disable=import-outside-toplevel

    base_dir = os.environ.get("TEALER_ROOT_OUTPUT_DIR") or None
    if base_dir:
        os.makedirs(base_dir, exist_ok=True)
    d = tempfile.mkdtemp(prefix="c14-", dir=base_dir)
    lines = ["name: C14", "contracts:"]
    txns = ["groups:", "  - operation: op", "    transactions:"]
    with harness.capture():
        for k, i in enumerate(order):
            with open(os.path.join(d, f"p{i}.teal"), "w", encoding="utf-8") as f:
                f.write(POOL[i])
            is_app = parse_teal(POOL[i]).contract_type == ContractType.ApprovalProgram
            lines += [f"  - name: p{i}", f"    file_path: p{i}.teal", f"    type: {'ApprovalProgram' if is_app else 'LogicSig'}", "    version: 8",
                      "    subroutines: []", "    functions:", "      - name: main", '        dispatch_path: ["B0"]']
            txns += [f"      - txn_id: T{k}", f"        txn_type: {'appl' if is_app else 'txn'}",
                     f"        {'application' if is_app else 'logic_sig'}:", f"          contract: p{i}", "          function: main"]
        cfg = os.path.join(d, "config.yaml")
        with open(cfg, "w", encoding="utf-8") as f:
            f.write("\n".join(lines + txns) + "\n")
        tealer = init_tealer_from_config(read_config_from_file(Path(cfg)))
        outs = harness.run_detector_outputs(tealer, "group-size-check")
    got: Dict[int, Any] = {}
    for o in outs:
        name = o._teal.contract_name  # pylint: disable=protected-access
        got[int(name[1:])] = [[b.idx for b in p] for p in o.paths]
    import shutil  # pylint: disable=import-outside-toplevel

    shutil.rmtree(d, ignore_errors=True)
    return got


def isolated(fn: Callable[[], Any]) -> Any:
    """Run fn in a child forked from this (pristine) worker; return its pickled result."""
    r, w = os.pipe()
    pid = os.fork()
    if pid == 0:
        try:
            os.close(r)
            try:
                payload = pickle.dumps(("ok", fn()))
            except BaseException as e:  # pylint: disable=broad-except
                import traceback  # pylint: disable=import-outside-toplevel

                payload = pickle.dumps(("error", repr(e) + "\n" + traceback.format_exc()[-800:]))
            with os.fdopen(w, "wb") as f:
                f.write(payload)
        finally:
            os._exit(0)  # pylint: disable=protected-access
    os.close(w)
    with os.fdopen(r, "rb") as f:
        data = f.read()
    os.waitpid(pid, 0)
    kind, val = pickle.loads(data)
    if kind == "error":
        raise RuntimeError(val)
    return val


_BASE: Optional[Dict[int, Dict[str, Any]]] = None


def baselines() -> Dict[int, Dict[str, Any]]:
    """Each pool contract analysed alone in a fresh interpreter process."""
    global _BASE  # pylint: disable=global-statement
    if _BASE is None:
        path = os.environ.get("C14_BASELINES")
        assert path, "parent must compute the baselines first"
        with open(path, "rb") as f:
            _BASE = pickle.load(f)
    return _BASE


def compute_baselines(path: str, pool_n: int) -> None:
    base: Dict[int, Dict[str, Any]] = {}
    for i in range(pool_n):
        pr = subprocess.run([sys.executable, "-m", "mc.checks.c14", "--baseline", str(i)], capture_output=True, check=True,
                            env=dict(os.environ, PYTHONHASHSEED="0"))
        base[i] = pickle.loads(pr.stdout)
    with open(path, "wb") as f:
        pickle.dump(base, f)


def diff(a: Dict[str, Any], b: Dict[str, Any]) -> List[str]:
    out = []
    for k in ("graph", "contexts", "stdout"):
        if a[k] != b[k]:
            out.append(k)
    for det in a["detectors"]:
        if det in b["detectors"]:
            if a["detectors"][det][0] != b["detectors"][det][0]:
                out.append(f"paths:{det}")
            elif a["detectors"][det][1] != b["detectors"][det][1]:
                out.append(f"json:{det}")
    for det, c in a["ctx_after"].items():
        if c != a["contexts_light"]:
            out.append(f"contexts-changed-by:{det}")
    if a["contexts_end"] != a["contexts"]:
        out.append("contexts-changed-by-detectors")
    return out


def items(tier: str) -> List[Any]:
    k = 6 if tier == "quick" else len(POOL)
    depth = 3 if tier == "quick" else 4
    out: List[Any] = []
    for n in range(1, depth + 1):
        if n == 4:
            # length 4 over a sub-pool
            for seq in itertools.product(range(5), repeat=4):
                out.append(("history", list(seq)))
            continue
        for seq in itertools.product(range(k), repeat=n):
            out.append(("history", list(seq)))
    others = [d for d in DETS if d != "group-size-check"]
    for contract in (3, 10) if tier == "quick" else (3, 2, 0, 5, 10):
        for a, b in itertools.combinations(others, 2):
            for perm in itertools.permutations((a, b, "group-size-check")):
                out.append(("detorder", contract, list(perm)))
        for a, b in itertools.permutations(DETS, 2):
            out.append(("detorder", contract, [a, b]))
        for d in DETS:
            out.append(("detorder", contract, [d, d]))
    # the same orders through Tealer.register_detector / run_detectors (the route of the command line)
    for contract in (10,):
        for a, b in itertools.permutations(DETS, 2):
            out.append(("register", contract, [a, b]))
        for tri in itertools.permutations(("can-close-asset", "can-close-account", "rekey-to", "group-size-check"), 3):
            out.append(("register", contract, list(tri)))
        out.append(("register", contract, list(DETS)))
        out.append(("register", contract, list(reversed(DETS))))
    per_contract = sorted(set(range(k)) | set(ALWAYS))
    for contract in per_contract:
        for which in ("forward", "backward", "called_subroutines"):
            for pi in range(0, 120 if tier != "quick" else 24):
                out.append(("iterorder", contract, which, pi))
    for contract in per_contract:
        for hs in (0, 1, 2, 3, 4, 5, 6, 7, "seed"):
            out.append(("hashseed", contract, hs))
    # several contracts inside ONE Tealer (group configuration): every order of every pair, some triples
    n = len(POOL)
    for a, b in itertools.permutations(range(n), 2):
        out.append(("multi", [a, b]))
    for tri in itertools.permutations((3, 0, 8, 4), 3):
        out.append(("multi", list(tri)))
    return out


def worker_init() -> None:
    import gc  # pylint: disable=import-outside-toplevel
    from mc import harness  # noqa: F401  pylint: disable=import-outside-toplevel,unused-import

    gc.collect()
    gc.freeze()  # keep the imported modules out of the collector: fewer copy-on-write faults in forked children


def permute(lst: List[Any], pi: int) -> List[Any]:
    n = len(lst)
    if n <= 1:
        return list(lst)
    if n <= 5:
        perms = list(itertools.permutations(range(n)))
        p = perms[pi % len(perms)]
        return [lst[i] for i in p]
    fam = [list(lst)[k:] + list(lst)[:k] for k in range(n)] + [list(reversed(lst))] + [list(reversed(lst))[k:] + list(reversed(lst))[:k] for k in range(1, n)]
    return fam[pi % len(fam)]


def worker(item: Any, res: runner.Result) -> None:  # pylint: disable=too-many-locals,too-many-branches,too-many-statements
    base = baselines()
    kind = item[0]
    if kind == "history":
        seq = item[1]

        def run() -> List[Dict[str, Any]]:
            return [snapshot(POOL[i], f"p{i}") for i in seq]

        snaps = isolated(run)
        for pos, (i, s) in enumerate(zip(seq, snaps)):
            res.count("snapshots_compared")
            d = diff(s, base[i])
            if d:
                res.violation("C14.history-changes-result", item, line=f"{seq}@{pos}", contract=i, position=pos, differs=d)
        res.count("analyses", len(seq))
    elif kind == "detorder":
        _, ci, order = item

        def run2() -> Dict[str, Any]:
            return snapshot(POOL[ci], f"p{ci}", order)

        s = run2()  # in the worker itself: whatever this worker analysed before is one more history
        res.count("snapshots_compared")
        d = []
        # later repetitions overwrite earlier entries: compare every run with the baseline
        for det in set(order):
            if s["detectors"][det][0] != base[ci]["detectors"][det][0]:
                d.append(f"paths:{det}")
            elif s["detectors"][det][1] != base[ci]["detectors"][det][1]:
                d.append(f"json:{det}")
        for det, c in s["ctx_after"].items():
            if c != s["contexts_light"]:
                d.append(f"contexts-changed-by:{det}")
        if s["contexts_end"] != s["contexts"]:
            d.append("contexts-changed-by-detectors")
        if s["contexts"] != base[ci]["contexts"]:
            d.append("contexts")
        if d:
            res.violation("C14.detector-order-changes-result", item, line=repr(order), contract=ci, differs=d)
        res.count("analyses")
    elif kind == "register":
        _, ci, order = item
        from mc import harness  # pylint: disable=import-outside-toplevel
        from tealer.utils.command_line.common import init_tealer_from_single_contract  # pylint: disable=import-outside-toplevel

        d = []
        try:
            with harness.capture():
                tl = init_tealer_from_single_contract(POOL[ci], f"p{ci}")
                for det in order:
                    tl.register_detector(harness.DETECTORS.get(det) or harness.OTHER_DETECTORS[det])
                results = tl.run_detectors()
            if len(results) != len(order):
                d.append("number-of-results")
            for det, outs in zip(order, results):
                outs = outs if isinstance(outs, list) else [outs]
                paths = [[b.idx for b in p] for o in outs for p in getattr(o, "paths", [])]
                js = hashlib.sha1(json.dumps([o.to_json() for o in outs], indent=2).encode()).hexdigest()
                if paths != base[ci]["detectors"][det][0]:
                    d.append(f"paths:{det}")
                elif js != base[ci]["detectors"][det][1]:
                    d.append(f"json:{det}")
        except BaseException as e:  # pylint: disable=broad-except
            d.append("registration-or-run-raised:" + repr(e)[:200])
        res.count("snapshots_compared")
        res.count("analyses")
        if d:
            res.violation("C14.detector-order-changes-result", item, line=repr(order), contract=ci, differs=d, route="register_detector/run_detectors")
    elif kind == "iterorder":
        _, ci, which, pi = item

        def run3() -> Dict[str, Any]:
            from tealer.analyses.dataflow.transaction_context.generic import DataflowTransactionContext as D  # pylint: disable=import-outside-toplevel
            from tealer.teal.subroutine import Subroutine  # pylint: disable=import-outside-toplevel

            saved = (D.forward_analyis, D.backward_analysis, Subroutine.called_subroutines)
            try:
                if which == "forward":
                    orig = D.forward_analyis
                    D.forward_analyis = lambda self, keys, wl: orig(self, keys, permute(wl, pi))  # type: ignore
                elif which == "backward":
                    origb = D.backward_analysis
                    D.backward_analysis = lambda self, keys, wl: origb(self, keys, permute(wl, pi))  # type: ignore
                else:
                    origc = Subroutine.called_subroutines.fget  # type: ignore
                    Subroutine.called_subroutines = property(lambda self: permute(sorted(origc(self), key=lambda s: s.name), pi))  # type: ignore
                return snapshot(POOL[ci], f"p{ci}")
            finally:
                D.forward_analyis, D.backward_analysis, Subroutine.called_subroutines = saved  # type: ignore

        s = run3()
        res.count("snapshots_compared")
        d = diff(s, base[ci])
        if d:
            res.violation("C14.iteration-order-changes-result", item, line=f"{which}:{pi}", contract=ci, differs=d)
        res.count("analyses")
    elif kind == "multi":
        order = item[1]

        def run4() -> Dict[int, Any]:
            return multi_contract(order)

        got = isolated(run4)
        for ci, paths in got.items():
            res.count("snapshots_compared")
            if paths != base[ci]["detectors"]["group-size-check"][0]:
                res.violation("C14.other-contracts-in-the-same-run-change-result", item, line=repr(order), contract=ci,
                              expected=base[ci]["detectors"]["group-size-check"][0], actual=paths)
        res.count("analyses", len(order))
    elif kind == "hashseed":
        _, ci, hs = item
        seed = str(hs if hs != "seed" else int(os.environ.get("VERIF_SEED", "0") or 0) % 4294967295)
        pr = subprocess.run([sys.executable, "-m", "mc.checks.c14", "--baseline", str(ci)], capture_output=True, check=False,
                            env=dict(os.environ, PYTHONHASHSEED=seed))
        if pr.returncode != 0:
            res.violation("C14.hash-seed-crash", item, line=seed, error=pr.stderr.decode()[-300:])
            return
        s = pickle.loads(pr.stdout)
        res.count("snapshots_compared")
        res.count("fresh_processes")
        d = diff(s, base[ci])
        if d:
            res.violation("C14.hash-seed-changes-result", item, line=seed, contract=ci, differs=d)
    res.outcome(kind)
    res.mark_nontrivial(repr(item))
    res.sample({"case": item})


def main(argv: List[str]) -> int:
    if "--baseline" in argv:
        i = int(argv[argv.index("--baseline") + 1])
        sys.stdout.buffer.write(pickle.dumps(snapshot(POOL[i], f"p{i}")))
        return 0
    tier, seed = runner.tier_and_seed(argv)
    t0 = time.time()
    scratch = runner.scratch_dir()
    bpath = os.path.join(scratch, "baselines.pkl")
    os.environ["C14_BASELINES"] = bpath
    try:
        compute_baselines(bpath, len(POOL))
        its = runner.rotate(items(tier), seed)
        total = runner.execute("mc.checks.c14", "worker", its, chunk=8)
    finally:
        import shutil  # pylint: disable=import-outside-toplevel

        shutil.rmtree(scratch, ignore_errors=True)
    c = total.counters
    cov = {
        "programs": len(POOL),
        "states": c.get("analyses", 0) + c.get("fresh_processes", 0),
        "transitions": c.get("snapshots_compared", 0),
        "traces_validated_against_impl": c.get("snapshots_compared", 0),
        "exhaustive": True,
        "rule": "all sequences of <= 3 (thorough: 4 over a sub-pool) contracts of the pool; all permutations of every 3-subset of detectors "
        "containing group-size-check, all ordered pairs, every detector twice; all permutations (<= 5 elements) / rotations and reversals "
        "of the initial forward / backward worklists and of called_subroutines; PYTHONHASHSEED 0-3 and VERIF_SEED in fresh interpreters "
        "(hash seeds are a sample; the order effects any seed can induce are covered by the permutations); non-trivial = all",
    }
    return runner.finish(PROP, tier, seed, "model_checking", total, t0, cov,
                         ["every case runs in a child forked from a worker that has imported tealer but analysed nothing",
                          "baseline = the contract analysed alone in a fresh interpreter with PYTHONHASHSEED=0"])


if __name__ == "__main__":
    sys.exit(main(sys.argv[1:]))
