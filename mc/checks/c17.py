"""C17 - analysis and every output mode complete on every valid contract.

Enumerated: G1 raw layouts (assembler-valid, bodies entered only through callsub) + G2
programs (recursion, gtxn reads with unknown indices, fee compared with run-time values) x
every subcommand / printer / output format, driven through tealer.__main__.main() in-process
(and a fixed slice through real `python -m tealer` subprocesses).
"""
import os
import subprocess
import sys
import time
from typing import Any, List, Set, Tuple

from mc import runner
from mc.gen import atoms as A
from mc.gen import core, raw, spaces

PROP = "C17"
Z = "global ZeroAddress"
COMMANDS: List[Tuple[str, List[str]]] = [
    ("detect", ["detect", "--contracts", "{f}"]),
    ("detect-json-stdout", ["--json", "-", "detect", "--contracts", "{f}"]),
    ("print-cfg", ["print", "cfg", "--contracts", "{f}"]),
    ("print-subroutine-cfg", ["print", "subroutine-cfg", "--contracts", "{f}"]),
    ("print-call-graph", ["print", "call-graph", "--contracts", "{f}"]),
    ("print-human-summary", ["print", "human-summary", "--contracts", "{f}"]),
    ("print-transaction-context", ["print", "transaction-context", "--contracts", "{f}"]),
]
EXTRA: List[Tuple[str, List[str]]] = [
    ("detect-json-file", ["--json", "out.json", "detect", "--contracts", "{f}"]),
    ("detect-filter-paths", ["detect", "--contracts", "{f}", "--filter-paths", "0 -> 1"]),
    ("detect-one-detector-json", ["--json", "-", "detect", "--contracts", "{f}", "--detectors", "rekey-to,group-size-check"]),
    ("detect-exclude-stateless", ["detect", "--contracts", "{f}", "--exclude-stateless"]),
]


def odd_programs(tier: str) -> List[str]:
    odd = [
        ["txn FirstValid", "gtxns RekeyTo", Z, "=="],
        ["txn Fee", "txn FirstValid", "<="],
        ["load 0", "gtxns Fee", "int 1000", "<="],
        ["txn GroupIndex", "txn FirstValid", "+", "gtxns Sender", "global CreatorAddress", "=="],
        ["txn RekeyTo", "txn Sender", "=="],
        ["gtxn 15 RekeyTo", Z, "!="],
        ["int 16", "gtxns Fee", "int 0", "=="],
        ["txn TypeEnum", "txn FirstValid", "=="],
        ["global GroupSize", "txn GroupIndex", ">"],
        ["txn TypeEnum", "int 0", "=="],
        ["txn OnCompletion", "int 6", "!="],
        ["int unknown", "txn TypeEnum", "=="],
        ["txn OnCompletion", "int pay", "=="],
        ["txn ApplicationID", "int 18446744073709551615", "=="],
    ]
    named = [
        # named integer constants where a number is expected, every operator class
        ["global GroupSize", "int axfer", "<"],
        ["int pay", "txn GroupIndex", ">="],
        ["txn Fee", "int appl", "<="],
        ["global GroupSize", "int NoOp", "!="],
        ["txn Fee", "int DeleteApplication", ">"],
    ]
    out: List[str] = []
    seen: Set[str] = set()
    # named constants: each consumed by assert / bz / bnz / return (and the full layers in thorough)
    for a in named:
        body = "\n".join(a)
        for tail in ("assert\nint 1\nreturn", "bz l\nint 1\nreturn\nl:\nint 0\nreturn", "bnz l\nint 0\nreturn\nl:\nint 1\nreturn", "return"):
            out.append("#pragma version 8\n" + body + "\n" + tail + "\n")
            seen.add(out[-1])
    if tier != "quick":
        odd = odd + named
    for s in spaces.layered(odd, odd[:3], tier, l2_size=2 if tier == "quick" else 3, l3=False, max_subs=1):
        if s not in seen:
            seen.add(s)
            out.append(s)
    # loops governed by a scratch counter (incl. a subroutine entry as loop header) and conditions consumed by switch/match
    import itertools  # pylint: disable=import-outside-toplevel

    for s in itertools.chain(spaces.counted_loops(odd[:2], tier, max_size=2), spaces.multiway(odd[:6] + named[:2])):
        if s not in seen:
            seen.add(s)
            out.append(s)
    return out


def items(tier: str) -> List[Any]:
    from mc.checks import c02  # pylint: disable=import-outside-toplevel

    progs: List[str] = []
    seen: Set[str] = set()
    gens = [raw.space(3, 2), raw.programs(4, 2, raw.PLAIN_SMALL)] if tier == "quick" else [raw.space(4, 2), raw.programs(5, 2, raw.PLAIN_SMALL), raw.space(3, 2, multi=True)]
    for gen in gens:
        for s in gen:
            if s not in seen:
                seen.add(s)
                progs.append(s)
    # a call as the very last instruction whose callee returns (5-line layouts; all of them are in the thorough G1 space)
    if tier == "quick":
        for s in raw.programs(5, 2, raw.PLAIN_SMALL):
            if s.rstrip().split("\n")[-1].startswith("callsub") and "retsub" in s and s not in seen:
                seen.add(s)
                progs.append(s)
    structural = c02.structural("quick")
    if tier == "quick":
        structural = structural[::2]  # every second skeleton rendering (all of them in thorough)
    for s in structural + odd_programs(tier) + list(raw.dead_code(tier != "quick")):
        if s not in seen:
            seen.add(s)
            progs.append(s)
    # other pragma versions / no pragma at all (version 1 default) for a slice
    extra = []
    for s in progs[:: 40 if tier == "quick" else 10]:
        body = s.split("\n", 1)[1]
        extra.append("#pragma version 4\n" + body)
        extra.append(body)
    progs += [e for e in extra if e not in seen]
    out: List[Any] = []
    for i, s in enumerate(progs):
        out.append((i, s))
    return out


def worker_init() -> None:
    from mc import harness  # noqa: F401  pylint: disable=import-outside-toplevel,unused-import


def run_main(argv: List[str]) -> Tuple[str, str, str]:
    """(outcome, stdout, stderr); outcome 'ok' or a description of the failure."""
    from mc import harness  # pylint: disable=import-outside-toplevel
    from tealer.__main__ import main as tealer_main  # pylint: disable=import-outside-toplevel
    import traceback  # pylint: disable=import-outside-toplevel

    old = sys.argv
    sys.argv = ["tealer"] + argv
    outcome = "ok"
    harness.clear_caches()
    with harness.capture() as cap:
        try:
            tealer_main()
        except SystemExit as e:
            if e.code not in (0, None):
                outcome = f"SystemExit({e.code})"
        except BaseException as e:  # pylint: disable=broad-except
            tb = traceback.extract_tb(e.__traceback__)[-1]
            outcome = f"{type(e).__name__}: {e!s:.80} at {os.path.basename(tb.filename)}:{tb.name}"
    sys.argv = old
    return outcome, cap.out, cap.err


def worker(item: Any, res: runner.Result) -> None:
    from mc.asm import tokenize  # pylint: disable=import-outside-toplevel
    from mc.refcfg import RefGraph, AsmError  # pylint: disable=import-outside-toplevel

    idx, src = item
    try:
        g = RefGraph(tokenize(src))
    except AsmError:
        return
    if not g.entered_only_through_callsub():
        res.count("filtered_bodies_not_entered_only_through_callsub")
        return
    d = os.path.join(os.environ.get("TEALER_ROOT_OUTPUT_DIR", runner.WORK_DIR), "c17-src")
    os.makedirs(d, exist_ok=True)
    path = os.path.join(d, f"c{os.getpid()}.teal")
    with open(path, "w", encoding="utf-8") as f:
        f.write(src)
    cmds = list(COMMANDS)
    if idx % 7 == 0:
        cmds += EXTRA
    outcomes = []
    for name, argv in cmds:
        outcome, out, err = run_main([a.replace("{f}", path) for a in argv])
        res.count("commands_run")
        outcomes.append((name, outcome))
        if outcome != "ok":
            res.violation("C17.internal-error", item, command=name, line=name, error=outcome)
        elif "Traceback (most recent call last)" in err or "Traceback (most recent call last)" in out:
            res.violation("C17.traceback-printed", item, command=name, line=name, error=err[-300:])
    # a fixed slice also through the real CLI
    if idx % (400 if runner_tier() == "quick" else 60) == 0:
        for name, argv in COMMANDS[:2] + COMMANDS[-2:]:
            pr = subprocess.run(
                ["/venv/bin/python", "-m", "tealer"] + [a.replace("{f}", path) for a in argv],
                capture_output=True, text=True, check=False, cwd=d,
                env=dict(os.environ, TEALER_ROOT_OUTPUT_DIR=os.path.join(d, "sub-out")),
            )
            res.count("subprocess_runs")
            inproc = dict(outcomes)[name]
            sub_ok = pr.returncode == 0 and "Traceback (most recent call last)" not in pr.stderr
            if sub_ok != (inproc == "ok"):
                res.violation("C17.cli-and-in-process-disagree", item, command=name, line=name, returncode=pr.returncode,
                              stderr=pr.stderr[-300:], in_process=inproc)
            elif not sub_ok:
                res.violation("C17.internal-error", item, command=name + " (subprocess)", line=name, error=pr.stderr[-300:])
    res.outcome(tuple(outcomes))
    res.mark_nontrivial(src)
    res.sample({"program": src, "commands": [n for n, _ in cmds]})


def runner_tier() -> str:
    return os.environ.get("VERIF_TIER_EFFECTIVE", "quick")


def main(argv: List[str]) -> int:
    tier, seed = runner.tier_and_seed(argv)
    os.environ["VERIF_TIER_EFFECTIVE"] = tier
    t0 = time.time()
    its = runner.rotate(items(tier), seed)
    total = runner.execute("mc.checks.c17", "worker", its, chunk=20)
    c = total.counters
    cov = {
        "programs": len(its),
        "states": len(its),
        "transitions": c.get("commands_run", 0),
        "traces_validated_against_impl": c.get("subprocess_runs", 0),
        "exhaustive": True,
        "rule": "G1 raw layouts (dead code that branches/calls, labels at end, empty subroutines, back-to-back labels, branch/call "
        "last, retsub in main) + skeleton-heavy G2 (recursion, loops) + programs with unknown gtxn indices / run-time comparands, also "
        "under #pragma version 4 and without pragma x 7 subcommands (+4 option variants on every 7th program); states = programs, "
        "transitions = command executions, traces = real CLI subprocess runs compared with the in-process outcome; non-trivial = all",
    }
    return runner.finish(PROP, tier, seed, "model_checking", total, t0, cov,
                         ["tealer.__main__.main() with patched sys.argv is the CLI (a slice is re-run through `python -m tealer`)",
                          "programs whose subroutine bodies are also entered by fall-through or branch are outside the property"])


if __name__ == "__main__":
    sys.exit(main(sys.argv[1:]))
