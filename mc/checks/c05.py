"""C05 - subroutine, call-site and return-point structure is faithful.

Enumerated: G1 programs containing callsub (0-3 subroutines) + a dedicated generator of
4-6 subroutines (nested / shared / recursive / unreachable call sites / before-after main).
Oracle: reference graph (mc/refcfg.py).
"""
import itertools
import os
import re
import sys
import time
from typing import Any, Dict, Iterator, List, Set, Tuple

from mc import runner
from mc.asm import tokenize
from mc.gen import raw
from mc.refcfg import RefGraph

PROP = "C05"


def many_subs(k: int, choices: str) -> Iterator[str]:
    """k one-line subroutines S1..Sk; Si's body is `retsub`, `callsub Sj; retsub` or
    `int 1; return`; main calls S1 (and optionally the last one); both layouts."""
    names = [f"S{i}" for i in range(1, k + 1)]

    def opts(i: int) -> List[Any]:
        if choices == "full":
            return [None, "ret"] + list(range(k))
        cand = [None, "ret", i, (i + 1) % k, 0]
        out: List[Any] = []
        for c in cand:
            if c not in out:
                out.append(c)
        return out

    for combo in itertools.product(*[opts(i) for i in range(k)]):
        for main_extra in (False, True):
            for before in (False, True):
                body: List[str] = []
                main = ["callsub S1"] + (["callsub " + names[-1]] if main_extra else []) + ["int 1", "return"]
                subs: List[str] = []
                for i, c in enumerate(combo):
                    subs.append(names[i] + ":")
                    if c is None:
                        subs.append("retsub")
                    elif c == "ret":
                        subs += ["int 1", "return"]
                    else:
                        subs += ["callsub " + names[c], "retsub"]
                if before:
                    body = ["b main"] + subs + ["main:"] + main
                else:
                    body = main + subs
                yield "#pragma version 8\n" + "\n".join(body) + "\n"


def items(tier: str) -> List[str]:
    out: List[str] = []
    if tier == "quick":
        srcs = itertools.chain(raw.space(4, 2), raw.programs(5, 2, raw.PLAIN_SMALL), many_subs(4, "full"), many_subs(6, "few"), raw.dead_code(), raw.sub_bodies(6))
    else:
        srcs = itertools.chain(
            raw.space(5, 2), raw.programs(6, 2, raw.PLAIN_SMALL), raw.space(4, 3), many_subs(4, "full"), many_subs(5, "full"), many_subs(6, "few"), raw.dead_code(), raw.sub_bodies(7)
        )
    seen: Set[str] = set()
    for s in srcs:
        if "callsub" in s and s not in seen:
            seen.add(s)
            out.append(s)
    return out


def worker_init() -> None:
    from mc import harness  # noqa: F401  pylint: disable=import-outside-toplevel,unused-import


def parse_call_graph(dot: str) -> Tuple[Set[str], Set[Tuple[str, str]]]:
    nodes: Set[str] = set()
    edges: Set[Tuple[str, str]] = set()
    for line in dot.splitlines():
        line = line.strip()
        m = re.fullmatch(r"(\S+) -> (\S+);", line)
        if m:
            edges.add((m.group(1), m.group(2)))
            continue
        m = re.fullmatch(r"(\S+)\[label=(\S+)\];", line)
        if m:
            nodes.add(m.group(1))
    return nodes, edges


def worker(src: str, res: runner.Result) -> None:  # pylint: disable=too-many-locals,too-many-branches,too-many-statements
    from mc import harness  # pylint: disable=import-outside-toplevel
    from tealer.printers.call_graph import PrinterCallGraph  # pylint: disable=import-outside-toplevel
    from tealer.utils.output import ROOT_OUTPUT_DIRECTORY  # pylint: disable=import-outside-toplevel

    lines = tokenize(src)
    g = RefGraph(lines)
    try:
        teal, _ = harness.parse(src)
    except BaseException as e:  # pylint: disable=broad-except
        res.violation("C05.parse-crash", src, error=repr(e))
        return
    l2b = harness.blocks_by_line(teal.bbs)
    ln = g.lineno

    def bl(b: int) -> int:  # reference block -> its first source line
        return ln(b)

    # 1. subroutine names
    if sorted(teal.subroutines.keys()) != sorted(g.sub_names):
        res.violation("C05.subroutine-names", src, expected=sorted(g.sub_names), actual=sorted(teal.subroutines))
        return
    # main blocks
    exp_main = sorted(bl(b) for b in g.main_blocks)
    act_main = sorted(b.entry_instr.line for b in teal.main.blocks)
    if exp_main != act_main:
        res.violation("C05.main-blocks", src, expected=exp_main, actual=act_main)
    for name in g.sub_names:
        sub = teal.subroutines[name]
        if sub.entry.entry_instr.line != ln(g.sub_entry[name]):
            res.violation("C05.subroutine-entry", src, sub=name)
        exp = sorted(bl(b) for b in g.sub_blocks[name])
        act = sorted(b.entry_instr.line for b in sub.blocks)
        if exp != act:
            res.violation("C05.subroutine-blocks", src, sub=name, expected=exp, actual=act)
        # 3. exits
        must = sorted(bl(b) for b in g.sub_blocks[name] if g.is_retsub_block(b) or g.is_leaf(b))
        may = sorted(bl(b) for b in g.sub_blocks[name] if not g.bsucc[b])
        act_exit = sorted(b.entry_instr.line for b in sub.exit_blocks)
        if not set(must) <= set(act_exit) or not set(act_exit) <= set(may) or len(set(act_exit)) != len(act_exit):
            res.violation("C05.exit-blocks", src, sub=name, must=must, may=may, actual=act_exit)
        exp_ret = sorted(bl(b) for b in g.sub_blocks[name] if g.is_retsub_block(b))
        act_ret = sorted(b.entry_instr.line for b in sub.retsub_blocks)
        if exp_ret != act_ret:
            res.violation("C05.retsub-blocks", src, sub=name, expected=exp_ret, actual=act_ret)
    # 4. every retained callsub block
    ncalls = 0
    for b in g.retained_blocks:
        if not g.is_callsub_block(b):
            continue
        ncalls += 1
        tb = l2b.get(ln(g.blocks[b][-1]))
        if tb is None or not tb.is_callsub_block:
            res.violation("C05.callsub-block-missing", src, line=ln(g.blocks[b][-1]))
            continue
        target = g.last(b).args[0]
        try:
            called = tb.called_subroutine.name
        except BaseException as e:  # pylint: disable=broad-except
            called = repr(e)
        if called != target:
            res.violation("C05.called-subroutine", src, line=ln(g.blocks[b][-1]), expected=target, actual=called)
        rp = g.return_point(b)
        act_rp = tb.sub_return_point
        exp_rp = None if rp is None else ln(rp)
        if (act_rp.entry_instr.line if act_rp is not None else None) != exp_rp:
            res.violation(
                "C05.return-point", src, line=ln(g.blocks[b][-1]), expected=exp_rp,
                actual=act_rp.entry_instr.line if act_rp is not None else None,
            )
        if act_rp is not None and not (act_rp.is_sub_return_point and act_rp.callsub_block is tb):
            res.violation("C05.return-point-backlink", src, line=ln(g.blocks[b][-1]))
    res.count("call_sites", ncalls)
    only_callsub = g.entered_only_through_callsub()
    if not only_callsub:
        res.count("filtered_bodies_shared_with_other_graphs")
    # 5. caller / return-point tables (contract level)
    for name in g.sub_names:
        sub = teal.subroutines[name]
        sites = g.call_sites(name)
        exp_c = sorted(bl(b) for b in sites)
        act_c = sorted(b.entry_instr.line for b in sub.caller_blocks)
        if exp_c != act_c:
            res.violation("C05.caller-table", src, sub=name, expected=exp_c, actual=act_c)
        exp_r = sorted(ln(g.return_point(b)) for b in sites if g.return_point(b) is not None)
        act_r = sorted(b.entry_instr.line for b in sub.return_point_blocks)
        if exp_r != act_r:
            res.violation("C05.return-point-table", src, sub=name, expected=exp_r, actual=act_r)
    if only_callsub:
        # function level tables
        try:
            _, teal2, function, _ = harness.analyze(src)
        except BaseException:  # pylint: disable=broad-except
            res.count("function_level_skipped_analysis_crash")
            function = None
        if function is not None:
            used: List[str] = []
            work = ["__main__"]
            while work:
                cur = work.pop()
                blocks = g.main_blocks if cur == "__main__" else g.sub_blocks[cur]
                for b in sorted(blocks):
                    if g.is_callsub_block(b):
                        t = g.last(b).args[0]
                        if t not in used:
                            used.append(t)
                            work.append(t)
            if sorted(function.subroutines.keys()) != sorted(used):
                res.violation("C05.function-subroutines", src, expected=sorted(used), actual=sorted(function.subroutines))
            else:
                fblocks = set(g.main_blocks)
                for u in used:
                    fblocks |= g.sub_blocks[u]
                for name in used:
                    sub = function.subroutines[name]
                    sites = [b for b in g.call_sites(name) if b in fblocks]
                    exp_c = sorted(bl(b) for b in sites)
                    act_c = sorted(b.entry_instr.line for b in function.caller_blocks(sub))
                    if exp_c != act_c:
                        res.violation("C05.function-caller-table", src, sub=name, expected=exp_c, actual=act_c)
                    exp_r = sorted(ln(g.return_point(b)) for b in sites if g.return_point(b) is not None)
                    act_r = sorted(b.entry_instr.line for b in function.return_point_blocks(sub))
                    if exp_r != act_r:
                        res.violation("C05.function-return-point-table", src, sub=name, expected=exp_r, actual=act_r)
        # 6. call-graph export
        exp_edges: Set[Tuple[str, str]] = set()
        for name in g.sub_names:
            for b in g.call_sites(name):
                for owner in g.owners(b):
                    exp_edges.add((owner, name))
        try:
            with harness.capture():
                PrinterCallGraph(teal).print()
            path = os.path.join(str(ROOT_OUTPUT_DIRECTORY), teal.contract_name, "call-graph.dot")
            with open(path, encoding="utf-8") as f:
                dot = f.read()
            os.remove(path)
        except BaseException as e:  # pylint: disable=broad-except
            res.violation("C05.call-graph-crash", src, error=repr(e))
            dot = None
        if dot is not None:
            nodes, edges = parse_call_graph(dot)
            if edges != exp_edges:
                res.violation("C05.call-graph-edges", src, expected=sorted(exp_edges), actual=sorted(edges))
            if nodes != set(g.sub_names):
                res.violation("C05.call-graph-nodes", src, expected=sorted(g.sub_names), actual=sorted(nodes))
            res.count("call_graph_exports")
            res.count("call_graph_edges", len(edges))
    res.count("subroutines", len(g.sub_names))
    res.outcome((len(g.sub_names), tuple(sorted((n, tuple(g.call_sites(n))) for n in g.sub_names))))
    if ncalls:
        res.mark_nontrivial(src)
    res.sample({"program": src, "subroutines": {n: sorted(ln(b) for b in g.sub_blocks[n]) for n in g.sub_names}})


def main(argv: List[str]) -> int:
    tier, seed = runner.tier_and_seed(argv)
    t0 = time.time()
    its = runner.rotate(items(tier), seed)
    total = runner.execute("mc.checks.c05", "worker", its, chunk=200)
    cov = {
        "programs": len(its),
        "states": total.counters.get("subroutines", 0) + total.counters.get("items", 0),
        "transitions": max(1, total.counters.get("call_sites", 0)),
        "traces_validated_against_impl": total.counters.get("call_graph_exports", 0),
        "exhaustive": True,
        "rule": "all G1 programs with a callsub up to the line bound + all arrangements of 4-6 one-line subroutines; "
        "states = subroutine graphs compared, transitions = call sites compared, traces = call-graph exports read back; "
        "non-trivial = program has a retained call site",
    }
    return runner.finish(
        PROP, tier, seed, "model_checking", total, t0, cov,
        ["reference graph mc/refcfg.py is the trusted base",
         "caller tables and call-graph are checked on programs whose subroutine bodies are entered only through callsub "
         "(otherwise 'the subroutine a call site belongs to' is not well defined)"],
    )


if __name__ == "__main__":
    sys.exit(main(sys.argv[1:]))
