"""C10 - cross-transaction (gtxn) contexts are sound for other group members."""
import sys
import time
from typing import Any, Dict, List, Optional, Set, Tuple

from mc import findings, runner
from mc.gen import atoms as A
from mc.gen import core, spaces

PROP = "C10"
Z = "global ZeroAddress"
ADDR = {"RekeyTo": "rekeyto", "CloseRemainderTo": "closeto", "AssetCloseTo": "assetcloseto", "Sender": "sender"}
FOUR = ("Pay", "Axfer", "ApplUpdateApplication", "ApplDeleteApplication")

BASES: List[Tuple[str, A.Atom]] = [
    ("txn RekeyTo", ["txn RekeyTo", Z, "=="]),
    ("txn RekeyTo", [f"addr {A.LIT1}", "txn RekeyTo", "=="]),
    ("txn Fee", ["txn Fee", "int 1000", "<="]),
    ("txn Fee", ["int 1000", "txn Fee", ">="]),
    # comparand the tool cannot evaluate (its documented heuristic): the credit belongs to the member that was read
    ("txn Fee", ["txn Fee", "global MinTxnFee", "<="]),
    ("txn TypeEnum", ["txn TypeEnum", "int pay", "=="]),
    ("txn OnCompletion", ["txn OnCompletion", "int UpdateApplication", "!="]),
    ("txn Sender", ["txn Sender", f"addr {A.LIT1}", "=="]),
    ("txn CloseRemainderTo", ["txn CloseRemainderTo", Z, "=="]),
]


def forms(tier: str) -> List[Tuple[A.Atom, Tuple[str, int], str]]:
    """(atom, (target kind, n), field): target 'abs' i / 'rel' k / 'self'."""
    out: List[Tuple[A.Atom, Tuple[str, int], str]] = []
    idxs = (0, 1, 2) if tier == "quick" else (0, 1, 15)
    offs = (1, 2) if tier == "quick" else (1, 15)
    for read, atom in BASES:
        f = read[4:]

        def sub(form: List[str]) -> A.Atom:
            a: A.Atom = []
            for l in atom:
                if l == read:
                    a.extend(form)
                else:
                    a.append(l)
            return a

        for i in idxs:
            out.append((sub([f"gtxn {i} {f}"]), ("abs", i), f))
            out.append((sub([f"int {i}", f"gtxns {f}"]), ("abs", i), f))
        for k in offs:
            out.append((sub(["txn GroupIndex", f"int {k}", "+", f"gtxns {f}"]), ("rel", k), f))
            out.append((sub(["txn GroupIndex", f"int {k}", "-", f"gtxns {f}"]), ("rel", -k), f))
            out.append((sub([f"int {k}", "txn GroupIndex", "+", f"gtxns {f}"]), ("rel", k), f))
            # k - GroupIndex is an absolute position computed from the own index: no single place stands for it,
            # in particular not the member at offset -k
            out.append((sub([f"int {k}", "txn GroupIndex", "-", f"gtxns {f}"]), ("none", 0), f))
        out.append((sub(["txn GroupIndex", f"gtxns {f}"]), ("self", 0), f))
        out.append((list(atom), ("self", 0), f))
    return out


def items(tier: str) -> List[Any]:
    fs = forms(tier)
    out: List[Any] = []
    seen: Set[str] = set()
    # attribution table: `assert atom` alone
    for atom, target, field in fs:
        s = "#pragma version 8\n" + "\n".join(atom) + "\nassert\nint 1\nreturn\n"
        if s not in seen:
            seen.add(s)
            out.append(("attr", s, list(target), field))
    full = [a for a, _, _ in fs]
    if tier == "quick":
        full = [a for a, _, f in fs if f in ("RekeyTo", "Fee", "TypeEnum")][::2]
    small = [
        ["gtxn 1 RekeyTo", Z, "=="],
        ["txn GroupIndex", "int 0", "=="],
        ["txn GroupIndex", "int 1", "+", "gtxns RekeyTo", Z, "=="],
        ["global GroupSize", "int 2", "=="],
        ["int 0", "gtxns Fee", "int 1000", "<="],
        ["gtxn 0 TypeEnum", "int pay", "=="],
        ["txn GroupIndex", "int 1", "-", "gtxns Sender", f"addr {A.LIT1}", "=="],
    ]
    small = small[:5] if tier == "quick" else small[:3] + small[5:]
    small.append(["txn GroupIndex", "int 1", "=="])
    l2 = 2  # thorough differs by the full form alphabet (index 15, offset 15, all fields) and the pair layer
    for s in spaces.layered(full, small, tier, l2_size=l2, max_subs=1, fall_off=False, l2_top_alpha=None if tier == "quick" else 2):
        if s not in seen:
            seen.add(s)
            out.append(("sound", s, None, None))
    # a two-block subroutine called on two alternative paths that constrain another member differently, one call site
    # behind another subroutine's return point (the callee's blocks are re-visited with new information on other keys)
    lit2 = "GD64YIY3TWGDMCNPP553DZPPR6LDUSFQOIJVFDPPXWEG3FVOJCCDBBHU5A"
    conds = [["gtxn 1 RekeyTo", f"addr {A.LIT1}", "=="], ["gtxn 1 RekeyTo", f"addr {lit2}", "=="], ["gtxn 0 Fee", "int 1000", "<="],
             ["gtxn 1 TypeEnum", "int pay", "=="], ["int 1", "gtxns Sender", f"addr {A.LIT1}", "=="], ["txn GroupIndex", "int 1", "+", "gtxns RekeyTo", Z, "=="]]
    two_block = "load 0\nbz chk_done\nint 7\nstore 0\nchk_done:\nretsub\n"
    templates = [
        "{C1}\nbz other\ncallsub chk\nint 1\nreturn\nother:\ncallsub prep\n{C2}\nassert\ncallsub chk\nint 1\nreturn\nprep:\nint 7\nstore 0\nretsub\nchk:\n" + two_block,
        "{C1}\nbnz one\ncallsub prep\n{C2}\nassert\ncallsub chk\nint 1\nreturn\none:\ncallsub chk\nint 1\nreturn\nprep:\nretsub\nchk:\n" + two_block,
        "{C1}\nbz other\ncallsub chk\nint 1\nreturn\nother:\ncallsub outer\nint 1\nreturn\nouter:\n{C2}\nassert\ncallsub chk\nretsub\nchk:\n" + two_block,
    ]
    for t in templates:
        for c1 in conds:
            for c2 in conds:
                s = "#pragma version 8\n" + t.replace("{C1}", "\n".join(c1)).replace("{C2}", "\n".join(c2))
                if s not in seen:
                    seen.add(s)
                    out.append(("sound", s, None, None))
    # loops that really iterate (counter conditions): accepting runs take back edges
    for s in spaces.counted_loops(small[:3], tier, max_size=2):
        if s not in seen:
            seen.add(s)
            out.append(("sound", s, None, None))
    return out


def worker_init() -> None:
    from mc import harness  # noqa: F401  pylint: disable=import-outside-toplevel,unused-import


def _is_top(sub: Any) -> bool:
    return (
        sub.rekeyto.any_addr and sub.closeto.any_addr and sub.assetcloseto.any_addr and sub.sender.any_addr
        and (sub.max_fee_unknown or sub.max_fee == (1 << 64) - 1)
        and all(any(str(t) == k for t in sub.transaction_types) for k in FOUR)
    )


def _is_empty(sub: Any) -> bool:
    return (
        not sub.transaction_types
        and not sub.rekeyto.any_addr and not sub.rekeyto.possible_addr
        and not sub.closeto.any_addr and not sub.sender.any_addr and not sub.assetcloseto.any_addr
        and not sub.max_fee_unknown and sub.max_fee == 0
    )


def worker(item: Any, res: runner.Result) -> None:  # pylint: disable=too-many-locals,too-many-branches,too-many-statements
    from mc import sem, abstract  # pylint: disable=import-outside-toplevel
    from mc.machine import ZERO, MAXU  # pylint: disable=import-outside-toplevel

    mode, src, target, field = item
    try:
        case = sem.Case(src, max_runs=60000)
    except BaseException as e:  # pylint: disable=broad-except
        res.violation("C10.analysis-crash", item, error=repr(e))
        return
    case.stats_into(res)
    blocks = list(case.function.blocks)

    def signature(run: Any, m: Any, own: bool) -> Any:
        return (
            tuple(tuple(v[1] for v in sem.addr_options(case, run, m, f, own) if v != ZERO) for f in ADDR),
            max(sem.fee_options(run, m)),
            tuple(sorted(sem.kinds(case, run, m, own))),
        )

    admit_cache: Dict[Any, List[Any]] = {}

    def admits(sub: Any, sig: Any, where: str, b: Any, env: Any) -> None:
        """sub-context must admit a member whose possible values are described by sig."""
        key = (id(sub), sig)
        if key not in admit_cache:
            res.count("subcontext_checks")
            probs: List[Any] = []
            addrs, top, need = sig
            for (f, attr), vals in zip(ADDR.items(), addrs):
                av = getattr(sub, attr)
                for v in vals:
                    if not sem.addr_admits(av, ("b", v)):
                        probs.append(("C10.sound.address-not-admitted", {"field": f, "value": v, "listed": list(av.possible_addr)}))
            if not sub.max_fee_unknown and top > sub.max_fee:
                probs.append(("C10.sound.fee-above-bound", {"field": "Fee", "fee": top, "max_fee": sub.max_fee}))
            miss = set(need) - sem.kinds_of(sub)
            if miss:
                probs.append(("C10.sound.kind-missing", {"field": "kind", "missing": sorted(miss)}))
            admit_cache[key] = probs
        for kind, det in admit_cache[key]:
            res.violation(kind, item, block=b.entry_instr.line, where=where, env=repr(env), **det)

    nt_abs = {id(b): [i for i in range(16) if not _is_top(case.ctx(b).absolute_context(i))] for b in blocks}
    nt_rel = {id(b): [k for k in range(-15, 16) if k != 0 and not _is_top(case.ctx(b).relative_context(k))] for b in blocks}
    seen_runs: Set[Any] = set()
    for run in case.accepting:
        vis = case.visited(run)
        pairs = sem.size_index_pairs(run)
        bound_members = sorted({k[1] for k in run.env if isinstance(k, tuple) and k[0] == "m" and isinstance(k[1], int)})
        if case.prog.stateful and case.prog.uses_gtxn:
            pairs = [(s, g) for (s, g) in pairs if run.env.get(("m", g, "TypeEnum"), 6) == 6]
        gs = sorted({g for _, g in pairs})
        smax = {g: max(s for s, g2 in pairs if g2 == g) for g in gs}
        sigs = {i: signature(run, i, False) for i in bound_members}
        own_sig = {g: signature(run, g if case.prog.uses_gtxn else "self", True) for g in gs}
        rkey = (tuple(id(b) for b in vis), tuple(pairs) if len(pairs) < 20 else len(pairs), tuple(sorted(sigs.items())), tuple(sorted(own_sig.items())))
        if rkey in seen_runs:
            continue
        seen_runs.add(rkey)
        res.count("distinct_run_signatures")
        for b in vis:
            ctx = case.ctx(b)
            for g in gs:
                admits(ctx.gtxn_context(g), own_sig[g], f"gtxn_context({g})", b, run.env)
                admits(ctx.absolute_context(g), own_sig[g], f"absolute_context({g})", b, run.env)
                for i in bound_members:
                    if i != g and i < smax[g]:
                        admits(ctx.relative_context(i - g), sigs[i], f"relative_context({i - g})", b, run.env)
            for i in bound_members:
                if any(s > i and g != i for s, g in pairs):
                    admits(ctx.absolute_context(i), sigs[i], f"absolute_context({i})", b, run.env)
            # members the run never read must be admitted completely
            for i in nt_abs[id(b)]:
                if i not in bound_members and any(s > i and g != i for s, g in pairs):
                    res.violation("C10.sound.unread-member-constrained", item, block=b.entry_instr.line,
                                  where=f"absolute_context({i})", env=repr(run.env))
            for k in nt_rel[id(b)]:
                if any(0 <= g + k < s and (g + k) not in bound_members for s, g in pairs):
                    res.violation("C10.sound.unread-member-constrained", item, block=b.entry_instr.line,
                                  where=f"relative_context({k})", env=repr(run.env))
    # gtxn_context(i) is empty when i is impossible (O2 on the index dimension)
    solver = abstract.Solver(case.g)
    multi = solver.multi_context_blocks()
    _, _, ex_i, ci_i, _ = solver.bracket_sets(abstract.IndexDim())
    res.count("o2_states", solver.states)
    res.count("o2_transitions", solver.transitions)
    if mode != "shuffle":
        for rb, tb in abstract._tealer_blocks(case):  # pylint: disable=protected-access
            if rb not in ex_i:
                continue
            hi = ci_i[rb] if rb in multi else ex_i[rb]
            ctx = case.ctx(tb)
            for i in range(16):
                if i not in hi and not _is_empty(ctx.gtxn_context(i)):
                    res.violation("C10.gtxn-context-not-empty-for-impossible-index", item, block=tb.entry_instr.line, index=i,
                                  possible=sorted(hi))
                res.count("subcontext_checks")
    # attribution table
    if mode == "attr":
        kind, n = target
        attr = {"RekeyTo": "rekeyto", "Sender": "sender", "CloseRemainderTo": "closeto"}.get(field)
        b0 = [b for b in blocks if b.entry_instr.line == 1][0]
        ctx = case.ctx(b0)

        def constrained(sub: Any) -> bool:
            if attr is not None:
                return not getattr(sub, attr).any_addr
            if field == "Fee":
                return sub.max_fee_unknown or sub.max_fee < MAXU
            if field == "TypeEnum":
                return "Axfer" not in sem.kinds_of(sub)
            return "ApplUpdateApplication" not in sem.kinds_of(sub)

        places: Dict[str, Any] = {"self": ctx}
        for i in range(16):
            places[f"abs{i}"] = ctx.absolute_context(i)
        for k in range(-15, 16):
            if k != 0:
                places[f"rel{k}"] = ctx.relative_context(k)
        want = "self" if kind == "self" else (f"abs{n}" if kind == "abs" else (f"rel{n}" if kind == "rel" else "nowhere"))
        got = sorted(p for p, sub in places.items() if constrained(sub))
        res.count("attribution_cases")
        if kind != "none" and want not in got:
            res.violation("C10.read-not-attributed", item, block=1, field=field, expected=want, constrained=got)
        extra = [p for p in got if p != want]
        if extra:
            res.violation("C10.read-attributed-to-wrong-transaction", item, block=1, field=field, expected=want, constrained=got)
    res.outcome(tuple((b.entry_instr.line, tuple(i for i in range(16) if not _is_top(case.ctx(b).absolute_context(i)))) for b in blocks))
    if any(not _is_top(case.ctx(b).absolute_context(i)) or not _is_top(case.ctx(b).relative_context(1)) for b in blocks for i in range(3)):
        res.mark_nontrivial(src)
    res.sample({"program": src, "mode": mode, "target": target})


_ATTR = None


def attribute(entry: Any, v: Any) -> bool:
    global _ATTR  # pylint: disable=global-statement
    if _ATTR is None:
        _ATTR = findings.any_of(
            findings.by_repair(worker, lambda it: it[1], lambda it, s: (it[0], s, it[2], it[3]), patches=("kind-partitions",)),
            findings.by_patch(worker),
        )
    return _ATTR(entry, v)


def main(argv: List[str]) -> int:
    tier, seed = runner.tier_and_seed(argv)
    t0 = time.time()
    its = runner.rotate(items(tier), seed)
    total = runner.execute("mc.checks.c10", "worker", its, chunk=20)
    c = total.counters
    cov = {
        "programs": len(its),
        "states": c.get("states", 0) + c.get("o2_states", 0),
        "transitions": c.get("transitions", 0) + c.get("o2_transitions", 0),
        "traces_validated_against_impl": c.get("subcontext_checks", 0),
        "exhaustive": c.get("capped_programs", 0) == 0,
        "rule": "layered G2 spaces over gtxn-form atoms (gtxn i f / int i; gtxns f / GroupIndex +- k; gtxns f, both operand orders "
        "of +) for address, fee and kind fields combined with GroupIndex/GroupSize atoms; all groups (size 1-16, own index, "
        "member values by region representatives); + attribution table (one asserted atom per read form); non-trivial = some "
        "absolute/relative context is constrained",
    }
    return runner.finish(PROP, tier, seed, "model_checking", total, t0, cov,
                         ["reference AVM + O2 (index dimension) are the trusted base",
                          "a member that the run never reads must be admitted completely"])


if __name__ == "__main__":
    sys.exit(main(sys.argv[1:]))
