"""C19 - version, mode and cost reporting agree with the AVM specification.

Input enumeration against the independent table mc/spec.py (no transition system of its
own): every opcode x field as a one-instruction program under every declared version 1-8 and
without a pragma; ordered pairs of mode/version class representatives; blocks of 1-3
instructions for cost sums.
"""
import itertools
import re
import sys
import time
from typing import Any, Dict, List, Optional, Sequence, Set, Tuple

from mc import runner, spec
from mc.gen.atoms import LIT1

PROP = "C19"
DYNAMIC_COST = ("base64_decode", "json_ref")


def default_imm(kind: str) -> List[str]:
    return {
        "optu8": ["0"], "u8": ["1"], "u64": ["7"], "label": ["L0"], "labels": ["L0", "L0"], "ints": ["1", "2"], "bytes1": ["0x0102"],
        "bytess": ["0x01", "0x02"], "addr": [LIT1], "ecdsa": ["Secp256k1"], "b64": ["URLEncoding"], "json": ["JSONString"],
        "vrf": ["VrfAlgorand"], "blockf": ["BlkSeed"], "i8": ["-1"], "txnf": ["Fee"], "txnaf": ["ApplicationArgs"], "gf": ["GroupSize"],
        "ahf": ["AssetBalance"], "apf": ["AssetTotal"], "appf": ["AppCreator"], "acf": ["AcctBalance"],
    }[kind]


def forms() -> List[Tuple[str, str, Optional[Tuple[str, str]], List[str]]]:
    """(opcode, source line, (field group, field) or None, immediates)"""
    out: List[Tuple[str, str, Optional[Tuple[str, str]], List[str]]] = []
    for op in spec.OPS:
        variants: List[Tuple[List[str], Optional[Tuple[str, str]]]] = []
        field_pos = [i for i, k in enumerate(op.imms) if k in spec.FIELD_GROUPS]
        base = [default_imm(k) for k in op.imms]
        if field_pos:
            i = field_pos[0]
            grp = op.imms[i]
            for fname in spec.FIELD_GROUPS[grp]:
                b = list(base)
                b[i] = [fname]
                variants.append(([x for part in b for x in part], (grp, fname)))
        elif op.imms and op.imms[0] == "ecdsa":
            for curve in spec.ECDSA:
                variants.append(([curve], None))
        else:
            variants.append(([x for part in base for x in part], None))
        for imms, fld in variants:
            out.append((op.name, " ".join([op.name] + imms), fld, imms))
    return out


def items(tier: str) -> List[Any]:
    fs = forms()
    out: List[Any] = []
    versions: List[Optional[int]] = [None, 1, 2, 3, 4, 5, 6, 7, 8]
    for name, line, fld, imms in fs:
        for v in versions:
            out.append(("single", v, [(name, line, fld, imms)]))
    # mode / version classes: ordered pairs (and triples in thorough)
    reps = [f for f in fs if f[0] in ("int", "arg", "args", "balance", "log", "box_put", "sha3_256", "bury", "callsub", "pop", "arg_0",
                                       "itxn_begin", "gaid", "app_global_get", "vrf_verify") and (f[2] is None)]
    reps += [f for f in fs if f[1] in ("txn RekeyTo", "txn Fee", "global CreatorAddress", "global OpcodeBudget", "txn LastLog",
                                       "asset_params_get AssetCreator", "acct_params_get AcctTotalBoxes", "global GroupID")]
    for a, b in itertools.permutations(reps, 2):
        for v in (None, 2, 5, 8) if tier == "quick" else versions:
            out.append(("pair", v, [a, b]))
    # mode-specific / versioned instructions that sit in unreachable code still belong to the program
    for a in reps:
        for v in (None, 2, 8):
            out.append(("dead", v, [a]))
    # cost blocks
    costly = [f for f in fs if spec.cost(spec.BY_NAME[f[0]], f[3], 8) != 1 or f[0] in ("int", "pop", "b", "bnz", "retsub", "err")]
    costly = [f for f in costly if f[2] is None or f[0] in ("ecdsa_verify",)]
    for a, b in itertools.product(costly, repeat=2):
        for v in (8,) if tier == "quick" else (1, 2, 4, 5, 7, 8):
            out.append(("cost", v, [a, b]))
    if tier != "quick":
        small = costly[::3]
        for a, b, c in itertools.product(small, repeat=3):
            out.append(("cost", 8, [a, b, c]))
    return out


def worker_init() -> None:
    from mc import harness  # noqa: F401  pylint: disable=import-outside-toplevel,unused-import


INS_RE = re.compile(r"^(\d+): (.*) instruction is not supported in Teal version (\d+), it is supported from Teal version (\d+)$")
FLD_RE = re.compile(r"^(\d+): (.*), field (.+?) is not supported in Teal version (\d+), it is supported from Teal version (\d+)$")


def worker(item: Any, res: runner.Result) -> None:  # pylint: disable=too-many-locals,too-many-branches,too-many-statements
    from mc import harness  # pylint: disable=import-outside-toplevel
    from tealer.utils.teal_enums import ExecutionMode, ContractType  # pylint: disable=import-outside-toplevel

    kind, version, inss = item
    lines: List[str] = []
    if version is not None:
        lines.append(f"#pragma version {version}")
    if kind == "dead":
        lines += ["int 1", "err"]  # everything after `err` is unreachable
    first = len(lines) + 1
    for _, line, _, _ in inss:
        lines.append(line)
    needs_label = any("L0" in l for l in lines)
    if needs_label:
        lines.append("L0:")
    src = "\n".join(lines) + "\n"
    declared = version if version is not None else 1
    try:
        teal, cap = harness.parse(src)
    except BaseException as e:  # pylint: disable=broad-except
        res.violation("C19.parse-crash", item, error=repr(e), program=src)
        return
    flagged_ins: Dict[int, int] = {}
    flagged_fld: Dict[int, Tuple[str, int]] = {}
    mixture = "program contains instructions specific to both Application and Signature Mode" in cap.err
    for l in cap.err.splitlines():
        m = INS_RE.match(l.strip())
        if m:
            flagged_ins[int(m.group(1))] = int(m.group(4))
            continue
        m = FLD_RE.match(l.strip())
        if m:
            flagged_fld[int(m.group(1))] = (m.group(3), int(m.group(5)))
    if teal.version != declared:
        res.violation("C19.declared-version", item, expected=declared, actual=teal.version, program=src)
    has_app = has_sig = False
    all_supported = True
    exp_cost = 0
    for k, (name, line, fld, imms) in enumerate(inss):
        ln = first + k
        op = spec.BY_NAME[name]
        if op.mode == spec.APP:
            has_app = True
        elif op.mode == spec.SIG:
            has_sig = True
        res.count("instruction_version_checks")
        if op.version > declared:
            all_supported = False
            if ln not in flagged_ins:
                res.violation("C19.unsupported-instruction-not-flagged", item, line=line, declared=declared, introduced=op.version)
            elif flagged_ins[ln] != op.version:
                res.violation("C19.wrong-introduction-version", item, line=line, reported=flagged_ins[ln], introduced=op.version)
        else:
            if ln in flagged_ins:
                res.violation("C19.supported-instruction-flagged", item, line=line, declared=declared, introduced=op.version,
                              reported=flagged_ins[ln])
            if fld is not None:
                fv = spec.FIELD_GROUPS[fld[0]][fld[1]]
                res.count("field_version_checks")
                if fv > declared:
                    all_supported = False
                    if ln not in flagged_fld:
                        res.violation("C19.unsupported-field-not-flagged", item, line=line, field=fld[1], group=fld[0], declared=declared,
                                      introduced=fv)
                    elif flagged_fld[ln][1] != fv:
                        res.violation("C19.wrong-field-introduction-version", item, line=line, field=fld[1], reported=flagged_fld[ln][1],
                                      introduced=fv)
                elif ln in flagged_fld:
                    res.violation("C19.supported-field-flagged", item, line=line, field=fld[1], declared=declared, introduced=fv)
        if name in DYNAMIC_COST:
            all_supported = False  # dynamic cost: no claim about the sum
        exp_cost += spec.cost(op, imms, declared)
    # mode classification
    res.count("mode_checks")
    if has_app and has_sig:
        if not mixture:
            res.violation("C19.mixture-not-flagged", item, program=src)
    else:
        if mixture:
            res.violation("C19.mixture-flagged-without-mixture", item, program=src)
        exp_mode = ExecutionMode.STATEFUL if has_app else ExecutionMode.STATELESS if has_sig else ExecutionMode.ANY
        uses_mode_field = any(f is not None and f[0] == "gf" and spec.GLOBAL_FIELDS[f[1]][1] != spec.ANY for _, _, f, _ in inss)
        if teal.mode != exp_mode and not uses_mode_field:
            res.violation("C19.mode", item, expected=str(exp_mode), actual=str(teal.mode), program=src)
        exp_type = ContractType.ApprovalProgram if teal.mode == ExecutionMode.STATEFUL else ContractType.LogicSig
        if teal.contract_type != exp_type:
            res.violation("C19.contract-type", item, mode=str(teal.mode), actual=str(teal.contract_type), program=src)
    # cost of the block(s): labels and #pragma are not opcodes and cost nothing
    if all_supported and kind in ("cost", "single"):
        total = 0
        shown = 0
        for b in teal.bbs:
            total += b.cost
            m = re.match(r"block_id = (\d+); cost = (\d+)$", b.tealer_comments[0]) if b.tealer_comments else None
            if not m or int(m.group(1)) != b.idx:
                res.violation("C19.cost-comment-format", item, comment=b.tealer_comments[:1], program=src)
            else:
                shown += int(m.group(2))
        # instructions of dead blocks are pruned: only count what is retained
        retained = {i.line for i in teal.instructions}
        exp = sum(spec.cost(spec.BY_NAME[n], im, declared) for k, (n, _, _, im) in enumerate(inss) if first + k in retained)
        res.count("cost_checks")
        if shown != exp or total != exp:
            res.violation("C19.block-cost", item, expected=exp, displayed=shown, computed=total, program=src)
    res.outcome((sorted(flagged_ins), sorted(flagged_fld), str(teal.mode), mixture))
    if flagged_ins or flagged_fld or teal.mode != ExecutionMode.ANY:
        res.mark_nontrivial(src)
    res.sample({"program": src, "stderr": cap.err[:300], "mode": str(teal.mode)})


_ATTR = None


def main(argv: List[str]) -> int:
    tier, seed = runner.tier_and_seed(argv)
    t0 = time.time()
    probs = spec.cross_check()
    if probs:
        print("HARNESS-ERROR property=C19: table disagrees with PyTeal:", probs[:5])
        return 2
    its = runner.rotate(items(tier), seed)
    total = runner.execute("mc.checks.c19", "worker", its, chunk=300)
    c = total.counters
    cov = {
        "evaluations": len(its),
        "rule": "every opcode x field of the v1-v8 table as one-instruction program under #pragma version 1-8 and without pragma; "
        "ordered pairs of mode/version class representatives; cost blocks of 2 (3 in thorough) instructions; distinct = program "
        "text; non-trivial = something is flagged or the contract is classified Stateful/Stateless",
        "exhaustive": True,
        "single_source_cells": spec.SINGLE_SOURCE_NOTE,
        "checks": {k: v for k, v in c.items() if k.endswith("_checks")},
    }
    return runner.finish(PROP, tier, seed, "exploration", total, t0, cov,
                         ["opcode/field table mc/spec.py is the trusted base (cross-checked with PyTeal for names, modes, versions >= 3)",
                          "mode is read at opcode level; app-only global fields do not classify; dynamic-cost opcodes are excluded from sums",
                          "labels and #pragma are not opcodes and cost 0"])


if __name__ == "__main__":
    sys.exit(main(sys.argv[1:]))
