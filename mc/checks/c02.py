"""C02 - every reported path is a genuine, unvalidated accepting path.

Every path a detector reports is an implementation trace that is replayed on the reference
call-stack automaton over the reference graph (mc/refcfg.py).
"""
import itertools
import sys
import time
from typing import Any, Callable, Dict, List, Optional, Set, Tuple

from mc import runner
from mc.gen import atoms as A
from mc.gen import core, detspaces, raw

PROP = "C02"


def structural(tier: str) -> List[str]:
    """Skeleton-heavy programs: free conditions only, up to 3 subroutines, shared / nested /
    recursive calls, loops inside subroutines."""
    out: List[str] = []
    seen: Set[str] = set()
    kinds = ("ret1", "err", "if", "while", "call")
    n_max = 3 if tier == "quick" else 4
    for nsubs in (0, 1, 2, 3):
        for rec in (False, True):
            if rec and nsubs == 0:
                continue
            o = core.Opts(kinds=kinds, cond_level=0, nsubs=nsubs, allow_recursion=rec, pols=("bz", "bnz") if nsubs < 2 else ("bz",))
            for size in range(1, n_max + 2 if nsubs >= 2 and tier != "quick" else n_max + 1):
                if nsubs == 3 and size > 4:
                    continue
                for prog, k in core.skeletons(size, o):
                    for subs_first in (False, True) if nsubs else (False,):
                        s = core.render(prog, [A.FREE] * k, subs_first=subs_first)
                        if s not in seen:
                            seen.add(s)
                            out.append(s)
    # deeper call/loop nests over a reduced statement alphabet (loop bodies that call, callees
    # that end the program themselves, two subroutines called from loops)
    o = None
    for nsubs in (1, 2):
        for size in (4, 5) if tier != "quick" else (4,):
            o = core.Opts(kinds=("ret1", "if", "while", "call"), cond_level=0, nsubs=nsubs, pols=("bz", "bnz") if nsubs == 1 else ("bz",),
                          else_variants=("none",))
            for prog, k in core.skeletons(size, o):
                s = core.render(prog, [A.FREE] * k)
                if s not in seen:
                    seen.add(s)
                    out.append(s)
    return out


def items(tier: str) -> List[Any]:
    out: List[Any] = [("struct", s) for s in structural(tier)]
    seen = set(s for _, s in out)
    g1 = [raw.space(4, 2), raw.programs(5, 2, raw.PLAIN_SMALL)] if tier == "quick" else [raw.space(5, 2), raw.programs(6, 2, raw.PLAIN_SMALL), raw.space(4, 2, multi=True)]
    if tier == "quick":
        # multi-way branches (incl. the same label named twice) in layouts of up to 4 lines
        g1.append((s for n in (2, 3, 4) for s in raw.programs(n, 2, raw.PLAIN_SMALL, multi=True) if "switch" in s or "match" in s))
    for gen in g1:
        for s in gen:
            if s not in seen:
                seen.add(s)
                out.append(("raw", s))
    per_focus: dict = {}
    gen = detspaces.detector_spaces(tier, chains=False)
    if tier != "quick":
        import itertools  # pylint: disable=import-outside-toplevel

        gen = itertools.chain((x for x in gen if x[0] == "rekey-to"), (x for x in detspaces.detector_spaces("quick", chains=False) if x[0] != "rekey-to"))
    for focus, mode, s in gen:
        if mode in ("shuffle", "g1a"):
            continue
        full = focus in ("rekey-to", "group-size-check", "can-close-account")
        # the other detectors share the path search; they get the atom-table layers (every comparison form once,
        # incl. the values on the boundary of 'excluded', e.g. Fee <= 272000) in the quick tier
        if not full and tier == "quick" and per_focus.get(focus, 0) >= 700:
            continue
        if s not in seen:
            seen.add(s)
            per_focus[focus] = per_focus.get(focus, 0) + 1
            out.append((focus, s))
    # call chains (callees that end the program themselves, checks only behind a return point) around one real check
    from mc.gen import core, spaces  # pylint: disable=import-outside-toplevel

    for focus, tracked in (("is-updatable", ["txn OnCompletion", "int UpdateApplication", "!="]), ("rekey-to", ["txn RekeyTo", "global ZeroAddress", "=="]),
                           ("can-close-account", ["txn TypeEnum", "int pay", "!="])):
        for prog, ats in spaces.call_chains(tracked):
            for subs_first in (False, True):
                s = core.render(prog, ats, subs_first=subs_first)
                if s not in seen:
                    seen.add(s)
                    out.append((focus, s))
    return out


def worker_init() -> None:
    from mc import harness  # noqa: F401  pylint: disable=import-outside-toplevel,unused-import


def excluded_predicates() -> Dict[str, Callable[[Any], bool]]:
    """My own copy of 'the dangerous value has been excluded in this context', per detector,
    written from the property text over the exposed context fields."""

    def has(ctx: Any, name: str) -> bool:
        return any(str(t) == name for t in ctx.transaction_types)

    return {
        "rekey-to": lambda c: not c.rekeyto.any_addr,
        "can-close-account": lambda c: not (c.closeto.any_addr and has(c, "Pay")),
        "can-close-asset": lambda c: not (c.assetcloseto.any_addr and has(c, "Axfer")),
        "missing-fee-check": lambda c: c.max_fee_unknown or c.max_fee <= 272000,
        "is-updatable": lambda c: not has(c, "ApplUpdateApplication"),
        "is-deletable": lambda c: not has(c, "ApplDeleteApplication"),
        "unprotected-updatable": lambda c: not (has(c, "ApplUpdateApplication") and c.sender.any_addr),
        "unprotected-deletable": lambda c: not (has(c, "ApplDeleteApplication") and c.sender.any_addr),
        "group-size-check": lambda c: (not c.is_gtxn_context) and 16 not in c.group_sizes,
    }


def block_validated(ctx: Any, pred: Callable[[Any], bool]) -> bool:
    """Excluded through `txn f`, or through `gtxn i f` for every index the transaction can have."""
    if pred(ctx):
        return True
    for i in ctx.group_indices:
        if not pred(ctx.gtxn_context(i)):
            return False
    return True


def _truth_applicable(det: str, lines: Any) -> bool:
    """The O2 clause is not applied where a recorded known finding (C03: fee lower bounds are not tracked; constant-first
    ordered comparisons of GroupSize are read mirrored) already explains a report through an excluding block."""
    if det == "missing-fee-check":
        reads = [i for i, l in enumerate(lines) if l.op in ("txn", "gtxn", "gtxns") and l.args and l.args[-1] == "Fee"]
        if len(reads) != 1 or any(l.op == "!" for l in lines):
            return False
        i = reads[0]
        if i + 2 < len(lines) and lines[i + 1].op == "int" and lines[i + 2].op in ("<=", "<", "=="):
            return True
        if i >= 1 and i + 1 < len(lines) and lines[i - 1].op == "int" and lines[i + 1].op in (">=", ">", "=="):
            return True
        return False
    if det == "group-size-check":
        for i in range(len(lines) - 2):
            if lines[i].op == "int" and lines[i + 1].text == "global GroupSize" and lines[i + 2].op in ("<", "<=", ">", ">="):
                return False
    return True


def worker(item: Any, res: runner.Result) -> None:  # pylint: disable=too-many-locals,too-many-branches,too-many-statements
    from mc import harness  # pylint: disable=import-outside-toplevel
    from mc.asm import tokenize  # pylint: disable=import-outside-toplevel
    from mc.refcfg import RefGraph  # pylint: disable=import-outside-toplevel
    from mc.detect import DETECTORS  # pylint: disable=import-outside-toplevel

    _, src = item
    lines = tokenize(src)
    g = RefGraph(lines)
    if not g.entered_only_through_callsub():
        res.count("filtered_bodies_not_entered_only_through_callsub")
        return
    try:
        tealer, teal, function, _ = harness.analyze(src)
    except BaseException as e:  # pylint: disable=broad-except
        res.violation("C02.analysis-crash", item, error=repr(e))
        return
    idx_of_line = {l.lineno: i for i, l in enumerate(lines)}
    text_of_line = {l.lineno: l.text for l in lines}
    preds = excluded_predicates()
    # ground truth for "no block at which the dangerous value has been excluded" on direct-check programs: the blocks that
    # admit the value on some accepting abstract path (O2, upper bracket); computed lazily per detector
    truth: Dict[str, Any] = {}
    av_box: List[Any] = []

    def really_admitting(det_: str) -> Any:
        if det_ not in truth:
            if not av_box:
                from mc import detect  # pylint: disable=import-outside-toplevel
                from mc.machine import Program  # pylint: disable=import-outside-toplevel

                class _Case:  # pylint: disable=too-few-public-methods
                    pass

                cv = _Case()
                cv.g = g  # type: ignore
                cv.prog = Program(src, lines)  # type: ignore
                av_box.append(detect.AbstractVerdict(cv))
            truth[det_] = av_box[0].unvalidated(det_)
        return truth[det_]

    direct = item[0] in DETECTORS
    depths: Set[int] = set()
    npaths = 0
    for det in DETECTORS:
        try:
            outs = harness.run_detector_outputs(tealer, det)
        except BaseException as e:  # pylint: disable=broad-except
            res.violation("C02.detector-crash", item, detector=det, error=repr(e))
            continue
        for out in outs:
            paths = out.paths
            js = out.to_json()
            if js.get("count") != len(paths) or len(js.get("paths", [])) != len(paths):
                res.violation("C02.json-count", item, detector=det, count=js.get("count"), paths=len(paths))
            seen_paths: Set[Tuple[int, ...]] = set()
            for pi, path in enumerate(paths):
                npaths += 1
                key = tuple(id(b) for b in path)
                if key in seen_paths:
                    res.violation("C02.duplicate-path", item, detector=det, path=[b.idx for b in path])
                seen_paths.add(key)
                # --- replay on the reference call-stack automaton
                rb: List[int] = []
                ok = True
                for b in path:
                    i = idx_of_line.get(b.entry_instr.line)
                    if i is None or g.block_of[i] != i or [x.line for x in b.instructions] != [g.lineno(j) for j in g.blocks[i]]:
                        res.violation("C02.block-not-in-reference-graph", item, detector=det, block=b.entry_instr.line)
                        ok = False
                        break
                    rb.append(i)
                if not ok:
                    continue
                if rb[0] != 0:
                    res.violation("C02.path-does-not-start-at-entry", item, detector=det, first=g.lineno(rb[0]))
                stack: List[Optional[int]] = []
                frames: List[Set[int]] = [set()]
                bad = None
                for k, cur in enumerate(rb):
                    if cur in frames[-1]:
                        bad = ("C02.block-repeated-in-activation", g.lineno(cur))
                        break
                    frames[-1].add(cur)
                    if k + 1 == len(rb):
                        break
                    nxt = rb[k + 1]
                    if g.is_callsub_block(cur):
                        if nxt != g.callee_entry(cur):
                            bad = ("C02.step-after-callsub-not-callee-entry", g.lineno(cur))
                            break
                        stack.append(g.return_point(cur))
                        frames.append(set())
                    elif g.is_retsub_block(cur):
                        if not stack:
                            bad = ("C02.retsub-with-empty-call-stack", g.lineno(cur))
                            break
                        rp = stack.pop()
                        frames.pop()
                        if rp is None or nxt != rp:
                            bad = ("C02.retsub-does-not-return-to-its-call-site", g.lineno(cur))
                            break
                    elif nxt not in g.bsucc[cur]:
                        bad = ("C02.step-is-not-an-edge", g.lineno(cur))
                        break
                    depths.add(len(stack))
                if bad is not None:
                    res.violation(bad[0], item, detector=det, block=bad[1], path=[b.idx for b in path])
                    continue
                last = rb[-1]
                if not g.is_leaf(last):
                    res.violation("C02.path-does-not-end-in-terminating-block", item, detector=det, block=g.lineno(last),
                                  path=[b.idx for b in path])
                # --- no validated block
                for b in path:
                    if block_validated(function.transaction_context(b), preds[det]):
                        res.violation("C02.path-contains-validated-block", item, detector=det, block=b.entry_instr.line,
                                      path=[x.idx for x in path])
                        break
                # --- ... nor a block at which the value is excluded in fact (direct-check programs; the two recorded
                # causes of spurious reports - fee lower bounds, constant-first ordered GroupSize comparisons - are kept out)
                if direct and _truth_applicable(det, lines):
                    adm = really_admitting(det)
                    off = [g.lineno(i) for i in rb if i not in adm]
                    res.count("paths_checked_against_o2")
                    if off:
                        res.violation("C02.path-through-block-that-excludes-the-value", item, detector=det, block=off[0], blocks=off,
                                      path=[x.idx for x in path])
                # --- renderings
                short = " -> ".join(str(b.idx) for b in path)
                if out._short_notation(path) != short or js["paths"][pi]["short"] != short:  # pylint: disable=protected-access
                    res.violation("C02.short-notation", item, detector=det, expected=short, actual=js["paths"][pi]["short"])
                exp_blocks = [[f"{g.lineno(j)}: {text_of_line[g.lineno(j)]}" for j in g.blocks[i]] for i in rb]
                if js["paths"][pi]["blocks"] != exp_blocks:
                    res.violation("C02.json-blocks", item, detector=det, expected=exp_blocks[:3], actual=js["paths"][pi]["blocks"][:3])
                res.count("paths_replayed")
    res.count("states", sum(len(b) for b in g.blocks.values()))
    res.count("transitions", sum(len(s) for s in g.bsucc.values()))
    res.outcome((npaths, tuple(sorted(depths))))
    if npaths and g.sub_names:
        res.mark_nontrivial(src)
    res.count("max_call_depth_%d" % (max(depths) if depths else 0))
    res.sample({"program": src, "paths": npaths, "call_depths_on_paths": sorted(depths)})


def main(argv: List[str]) -> int:
    tier, seed = runner.tier_and_seed(argv)
    t0 = time.time()
    its = runner.rotate(items(tier), seed)
    total = runner.execute("mc.checks.c02", "worker", its, chunk=60)
    c = total.counters
    cov = {
        "programs": len(its),
        "states": c.get("states", 0),
        "transitions": c.get("transitions", 0),
        "traces_validated_against_impl": c.get("paths_replayed", 0),
        "exhaustive": True,
        "rule": "skeleton-heavy G2 programs (free conditions, 0-3 subroutines, shared/nested/recursive calls, loops) + G1 raw "
        "layouts + detector spaces; every reported path of all nine detectors is replayed on the reference call-stack automaton; "
        "non-trivial = program has a subroutine and at least one reported path",
    }
    return runner.finish(PROP, tier, seed, "model_checking", total, t0, cov,
                         ["reference graph / call-stack automaton are the trusted base",
                          "'validated' is recomputed from the exposed contexts with predicates written from the property text"])


if __name__ == "__main__":
    sys.exit(main(sys.argv[1:]))
