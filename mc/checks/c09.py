"""C09 - the per-block fee bound is an upper bound on every approvable fee."""
import sys
import time
from typing import Any, List

from mc import findings, runner
from mc.gen import atoms as A
from mc.gen import spaces

PROP = "C09"


def alphabets(tier: str) -> Any:
    if tier == "quick":
        full = A.fee_atoms((0, 1000, 272000, 272001))
        small = [["txn Fee", "int 1000", "<="], ["int 272001", "txn Fee", ">"], ["txn Fee", "int 500000", ">="], ["txn Fee", "int 1000", "=="]]
    else:
        full = A.fee_atoms()
        small = [["txn Fee", "int 1000", "<="], ["int 272001", "txn Fee", ">"], ["txn Fee", "int 500000", ">="],
                 ["txn Fee", "int 1000", "=="], ["txn Fee", "int 272000", "!="], ["int 2000", "txn Fee", "<"]]
    return full, small


def items(tier: str) -> List[Any]:
    full, small = alphabets(tier)
    for a in (small[0], small[1], ["txn Fee", "int 1000", ">"]):
        full = full + A.cross_block(a)
    out: List[Any] = [("direct", s) for s in spaces.layered(full, small, tier)]
    sh = []
    for a in small[:2] + [["txn Fee", "int 1000", ">"], ["int 1000", "txn Fee", "<="]]:
        sh += A.shuffled(a)
    seen = set(s for _, s in out)
    for s in spaces.layered(sh, sh[:2], tier, l2_size=2, l3=False, max_subs=1, chains=False):
        if s not in seen:
            seen.add(s)
            out.append(("shuffle", s))
    # soundness-only: multi-way branches consuming a tracked condition (or the tracked field itself)
    for s in spaces.multiway(list(full) + []):
        if s not in seen:
            seen.add(s)
            out.append(("shuffle", s))
    # soundness-only: loops that really iterate (counter conditions)
    for s in spaces.counted_loops(small[:2] + [["txn Fee", "int 1000", ">"]], tier):
        if s not in seen:
            seen.add(s)
            out.append(("shuffle", s))
    from mc.gen import raw  # pylint: disable=import-outside-toplevel

    for atom in [["txn Fee", "int 1000", "<="], ["txn Fee", "int 1000", ">"]]:
        for s in raw.with_atom(atom, 4 if tier == "quick" else 5):
            if s not in seen:
                seen.add(s)
                out.append(("g1a", s))
    for s in spaces.unresolvable_constants([x for m, x in out if m == "direct"], 3000 if tier == "quick" else 20000):
        if s not in seen:
            seen.add(s)
            out.append(("shuffle", s))
    return out


def worker_init() -> None:
    from mc import harness  # noqa: F401  pylint: disable=import-outside-toplevel,unused-import


def worker(item: Any, res: runner.Result) -> None:
    from mc import sem, abstract  # pylint: disable=import-outside-toplevel

    mode, src = item
    if mode == "g1a":
        from mc.asm import tokenize  # pylint: disable=import-outside-toplevel
        from mc.refcfg import RefGraph  # pylint: disable=import-outside-toplevel

        if not RefGraph(tokenize(src)).entered_only_through_callsub():
            res.count("filtered_bodies_not_entered_only_through_callsub")
            return
    try:
        case = sem.Case(src)
    except BaseException as e:  # pylint: disable=broad-except
        res.violation("C09.analysis-crash", item, error=repr(e))
        return
    case.stats_into(res)
    for run in case.accepting:
        for m in sem.own_views(case, run):
            fees = sem.fee_options(run, m)
            top = max(fees)
            for b in case.visited(run):
                ctx = case.ctx(b)
                res.count("block_run_checks")
                if not ctx.max_fee_unknown and top > ctx.max_fee:
                    res.violation("C09.sound.fee-above-bound", item, block=b.entry_instr.line, fee=top, max_fee=ctx.max_fee,
                                  env=repr(run.env))
    outcome = tuple((b.entry_instr.line, case.ctx(b).max_fee, case.ctx(b).max_fee_unknown) for b in case.function.blocks)
    if mode in ("direct", "g1a"):
        n_fee = sum(1 for l in case.lines if l.op == "txn" and l.args[0] == "Fee")
        # a comparison whose value is left on the stack at the end of the program is neither asserted
        # nor branched on: exactness is not demanded there
        abstract.check_c09_abstract(case, item, res, single_atom=n_fee == 1 and not (mode == "g1a" and sem.can_fall_off_end(case.lines)))
    abstract.check_c09_credit(case, item, res)
    res.outcome(outcome)
    if any(0 < mf < (1 << 64) - 1 for _, mf, _ in outcome):
        res.mark_nontrivial(src)
    res.sample({"program": src, "max_fee": [list(o) for o in outcome]})


_ATTR = None


def attribute(entry: Any, v: Any) -> bool:
    global _ATTR  # pylint: disable=global-statement
    if _ATTR is None:
        _ATTR = findings.any_of(findings.by_repair(worker, lambda it: it[-1], lambda it, s: tuple(it[:-1]) + (s,)), findings.by_patch(worker))
    return _ATTR(entry, v)


def main(argv: List[str]) -> int:
    tier, seed = runner.tier_and_seed(argv)
    t0 = time.time()
    its = runner.rotate(items(tier), seed)
    total = runner.execute("mc.checks.c09", "worker", its, chunk=40)
    c = total.counters
    cov = {
        "programs": len(its),
        "states": c.get("states", 0) + c.get("o2_states", 0),
        "transitions": c.get("transitions", 0) + c.get("o2_transitions", 0),
        "traces_validated_against_impl": c.get("block_run_checks", 0) + c.get("o2_block_checks", 0),
        "exhaustive": c.get("capped_programs", 0) == 0,
        "rule": "layered G2 spaces over Fee atoms (6 operators x 2 orders x constants); fee representatives c-1,c,c+1,0,"
        "272000,272001,2^64-1; non-trivial = some block has a finite non-zero bound",
    }
    return runner.finish(PROP, tier, seed, "model_checking", total, t0, cov,
                         ["reference AVM + O2 are the trusted base", "exact bound demanded only for programs with a single Fee atom"])


if __name__ == "__main__":
    sys.exit(main(sys.argv[1:]))
