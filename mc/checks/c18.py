"""C18 - exported graphs and reports denote exactly the internal results.

Output conformance: every file/JSON tealer writes for a program is read back by small
independent readers and compared with the reference graph, the reported paths and the
computed contexts.
"""
import html
import json
import os
import re
import sys
import time
from typing import Any, Dict, List, Optional, Set, Tuple

from mc import runner
from mc.gen import detspaces, raw

PROP = "C18"

# tolerant of attribute order / extra attributes: only COLOR (table), PORT (header cell) are read
NODE_RE = re.compile(r'(?ms)^(\d+)\[label=<<TABLE\b([^>]*)>\s*(.*?)</TABLE>>[^\]]*\]')
ROW_RE = re.compile(r'(?s)<TR>\s*<TD\b(?![^>]*\bPORT=)[^>]*>(.*?)</TD>\s*</TR>')
HEAD_RE = re.compile(r'(?s)<TR>\s*<TD\b[^>]*\bPORT="(\d+)"[^>]*>\s*<B>(.*?)</B>\s*</TD>\s*</TR>')
COLOR_RE = re.compile(r'\bCOLOR="([^"]+)"')
EDGE_RE = re.compile(r"(\w+):s -> (\w+):(\d+):n")
BOX_IN_RE = re.compile(r"(\d+):s -> (x\w+):n;")
BOX_RE = re.compile(r'(x\d+_\w+)\[label="Subroutine ([^"]+)",style=dashed')


class Dot:  # pylint: disable=too-few-public-methods
    def __init__(self, text: str):
        self.nodes: Dict[int, Dict[str, Any]] = {}
        for m in NODE_RE.finditer(text):
            idx, body = int(m.group(1)), m.group(3)
            cm = COLOR_RE.search(m.group(2))
            color = cm.group(1) if cm else ""
            head = HEAD_RE.search(body)
            rows = []
            for r in ROW_RE.findall(body):
                r2 = re.sub(r"(?s)^<B>.*?</B><BR/>", "", r)
                r2 = re.sub(r"</?[BI]>", "", r2)
                mm = re.match(r"(?s)(?:.*<BR/>)?(\d+)\. (.*)$", r2)
                rows.append((int(mm.group(1)), html.unescape(mm.group(2))) if mm else (None, r2))
            comments = [html.unescape(c) for c in (head.group(2).split("<BR/>") if head else [])]
            self.nodes[idx] = {"color": color, "rows": rows, "port": int(head.group(1)) if head else None, "comments": comments}
        self.edges: List[Tuple[str, str, int]] = [(a, b, int(p)) for a, b, p in EDGE_RE.findall(text)]
        self.box_in: List[Tuple[int, str]] = [(int(a), b) for a, b in BOX_IN_RE.findall(text)]
        self.boxes: Dict[str, str] = {a: b for a, b in BOX_RE.findall(text)}


def items(tier: str) -> List[Any]:
    out: List[Any] = []
    seen: Set[str] = set()
    gens = [raw.space(4, 2)] if tier == "quick" else [raw.space(5, 2), raw.space(4, 2, multi=True)]
    for gen in gens:
        for s in gen:
            if s not in seen:
                seen.add(s)
                out.append(s)
    # the detector spaces of the quick tier (completely in thorough; thorough adds the larger raw layouts above)
    for focus, _, s in detspaces.detector_spaces("quick", chains=False):
        if focus in ("rekey-to", "group-size-check") and s not in seen:
            seen.add(s)
            out.append(s)
    if tier == "quick":
        out = out[:13634] + out[13634::4]
    # every GroupSize / GroupIndex comparison form (and pairs of them) in the simplest skeletons: the printed
    # number lists of the transaction-context printer against the internal sets
    from mc.gen import atoms as A  # pylint: disable=import-outside-toplevel

    ints = A.size_atoms((0, 1, 2, 3, 16, 17)) + A.index_atoms()
    for a in ints:
        s = "#pragma version 8\n" + "\n".join(a) + "\nassert\nint 1\nreturn\n"
        if s not in seen:
            seen.add(s)
            out.append(s)
    idx_atoms = [a for a in ints if "txn GroupIndex" in a and any(x in a for x in ("!=", "<", ">="))]
    for a in idx_atoms[:: 1 if tier != "quick" else 3]:
        for b in idx_atoms[:: 1 if tier != "quick" else 3]:
            s = "#pragma version 8\n" + "\n".join(a) + "\nassert\n" + "\n".join(b) + "\nbz skip\nint 7\npop\nskip:\nint 1\nreturn\n"
            if s not in seen:
                seen.add(s)
                out.append(s)
    # the list renderer itself, on every subset of 0..16 (sizes 1..16, indices 0..15)
    out.extend(f"NUMLIST:{k}" for k in range(32))
    return out


def worker_init() -> None:
    from mc import harness  # noqa: F401  pylint: disable=import-outside-toplevel,unused-import


def decode_num_list(s: str) -> List[int]:
    out: List[int] = []
    for tok in s.split():
        if ".." in tok:
            a, b = tok.split("..")
            out += list(range(int(a), int(b) + 1))
        else:
            out.append(int(tok))
    return out


def worker(src: str, res: runner.Result) -> None:  # pylint: disable=too-many-locals,too-many-branches,too-many-statements
    import argparse  # pylint: disable=import-outside-toplevel
    from pathlib import Path  # pylint: disable=import-outside-toplevel
    from mc import harness  # pylint: disable=import-outside-toplevel
    from mc.asm import tokenize  # pylint: disable=import-outside-toplevel
    from mc.refcfg import RefGraph  # pylint: disable=import-outside-toplevel
    from mc.detect import DETECTORS  # pylint: disable=import-outside-toplevel
    from tealer.printers.full_cfg import PrinterCFG  # pylint: disable=import-outside-toplevel
    from tealer.printers.function_cfg import PrinterFunctionCFG  # pylint: disable=import-outside-toplevel
    from tealer.printers.transaction_context import PrinterTransactionContext  # pylint: disable=import-outside-toplevel
    from tealer.utils.output import ROOT_OUTPUT_DIRECTORY, ExecutionPaths  # pylint: disable=import-outside-toplevel
    from tealer.__main__ import handle_output  # pylint: disable=import-outside-toplevel

    if src.startswith("NUMLIST:"):
        k = int(src.split(":")[1])
        for mask in range(k * 4096, (k + 1) * 4096):
            vals = [i for i in range(17) if mask >> i & 1]
            try:
                txt = PrinterTransactionContext._repr_num_list(list(vals))  # pylint: disable=protected-access
                back = sorted(decode_num_list(txt))
            except BaseException as e:  # pylint: disable=broad-except
                res.violation("C18.number-list-rendering", src, values=vals, error=repr(e))
                continue
            res.count("number_lists_checked")
            if back != vals:
                res.violation("C18.number-list-rendering", src, values=vals, printed=txt)
        res.mark_nontrivial(src)
        return

    lines = tokenize(src)
    g = RefGraph(lines)
    if not g.entered_only_through_callsub():
        res.count("filtered_bodies_not_entered_only_through_callsub")
        return
    name = f"c18p{os.getpid()}"
    try:
        tealer, teal, function, _ = harness.analyze(src, name)
    except BaseException as e:  # pylint: disable=broad-except
        res.violation("C18.analysis-crash", src, error=repr(e))
        return
    root = os.path.join(str(ROOT_OUTPUT_DIRECTORY), name)
    rank = {ldr: k for k, ldr in enumerate(g.leaders)}
    text_of = {l.lineno: l.text for l in lines}
    ln = g.lineno

    def exp_rows(b: int) -> List[Tuple[int, str]]:
        return [(ln(i), text_of[ln(i)]) for i in g.blocks[b]]

    def read(path: str) -> Optional[str]:
        try:
            with open(path, encoding="utf-8") as f:
                return f.read()
        except OSError:
            return None

    # ---------------- cfg
    try:
        with harness.capture():
            PrinterCFG(teal).print()
    except BaseException as e:  # pylint: disable=broad-except
        res.violation("C18.printer-crash", src, printer="cfg", error=repr(e))
        return
    text = read(os.path.join(root, "full_cfg.dot"))
    if text is None:
        res.violation("C18.file-missing", src, file="full_cfg.dot")
        return
    dot = Dot(text)
    res.count("files_read")
    exp_nodes = {rank[b]: b for b in g.retained_blocks}
    if set(dot.nodes) != set(exp_nodes):
        res.violation("C18.cfg-nodes", src, expected=sorted(exp_nodes), actual=sorted(dot.nodes))
    else:
        for idx, b in exp_nodes.items():
            if dot.nodes[idx]["rows"] != exp_rows(b):
                res.violation("C18.cfg-node-rows", src, block=idx, expected=exp_rows(b), actual=dot.nodes[idx]["rows"])
            if dot.nodes[idx]["port"] != ln(b):
                res.violation("C18.cfg-node-port", src, block=idx)
    exp_edges: Set[Tuple[int, int]] = set()
    for b in g.retained_blocks:
        if g.is_callsub_block(b):
            exp_edges.add((rank[b], rank[g.callee_entry(b)]))
            rp = g.return_point(b)
            if rp is not None:
                callee = g.last(b).args[0]
                for rb in g.sub_blocks[callee]:
                    if g.is_retsub_block(rb):
                        exp_edges.add((rank[rb], rank[rp]))
        else:
            for t in g.bsucc[b]:
                exp_edges.add((rank[b], rank[t]))
    got_edges = [(int(a), int(b)) for a, b, _ in dot.edges]
    if set(got_edges) != exp_edges:
        res.violation("C18.cfg-edges", src, expected=sorted(exp_edges), actual=sorted(set(got_edges)))
    for a, b, port in dot.edges:
        if int(b) in exp_nodes and port != ln(exp_nodes[int(b)]):
            res.violation("C18.cfg-edge-port", src, edge=[a, b], port=port)
    # ---------------- subroutine-cfg
    try:
        with harness.capture():
            PrinterFunctionCFG(teal).print()
    except BaseException as e:  # pylint: disable=broad-except
        res.violation("C18.printer-crash", src, printer="subroutine-cfg", error=repr(e))
        return
    sdir = os.path.join(root, "print-subroutine-cfg")
    graphs = [("__main__", "contract_shortened_cfg.dot", g.main_blocks)] + [(s, f"subroutine_{s}_cfg.dot", g.sub_blocks[s]) for s in g.sub_names]
    for sname, fname, blocks in graphs:
        t2 = read(os.path.join(sdir, fname))
        if t2 is None:
            res.violation("C18.file-missing", src, file=fname)
            continue
        d2 = Dot(t2)
        res.count("files_read")
        en = {rank[b]: b for b in blocks}
        if set(d2.nodes) != set(en):
            res.violation("C18.subroutine-cfg-nodes", src, sub=sname, expected=sorted(en), actual=sorted(d2.nodes))
            continue
        for idx, b in en.items():
            if d2.nodes[idx]["rows"] != exp_rows(b):
                res.violation("C18.subroutine-cfg-node-rows", src, sub=sname, block=idx)
        ee: Set[Tuple[str, str]] = set()
        boxes: Dict[str, str] = {}
        for b in blocks:
            if g.is_callsub_block(b):
                rp = g.return_point(b)
                box = f"x{rank[b]}_{rank[rp] if rp is not None else 'none'}"
                boxes[box] = g.last(b).args[0]
                ee.add((str(rank[b]), box))
                if rp is not None:
                    ee.add((box, str(rank[rp])))
            else:
                for t in g.bsucc[b]:
                    ee.add((str(rank[b]), str(rank[t])))
        ge = {(a, b) for a, b, _ in d2.edges} | {(str(a), b) for a, b in d2.box_in}
        if ge != ee:
            res.violation("C18.subroutine-cfg-edges", src, sub=sname, expected=sorted(ee), actual=sorted(ge))
        if d2.boxes != boxes:
            res.violation("C18.subroutine-cfg-call-boxes", src, sub=sname, expected=boxes, actual=d2.boxes)
    # ---------------- transaction-context
    try:
        with harness.capture():
            PrinterTransactionContext(teal).print()
    except BaseException as e:  # pylint: disable=broad-except
        res.violation("C18.printer-crash", src, printer="transaction-context", error=repr(e))
        return
    t3 = read(os.path.join(root, "print-transaction-context", "transaction-context.dot"))
    if t3 is None:
        res.violation("C18.file-missing", src, file="transaction-context.dot")
    else:
        d3 = Dot(t3)
        res.count("files_read")
        fblocks = {b.idx: b for b in function.blocks}
        for idx, node in d3.nodes.items():
            if idx not in fblocks:
                continue
            ctx = function.transaction_context(fblocks[idx])
            gi = [c for c in node["comments"] if c.startswith("// GroupIndex:")]
            gs = [c for c in node["comments"] if c.startswith("// GroupSize:")]
            if len(gi) != 1 or len(gs) != 1:
                res.violation("C18.context-annotation-missing", src, block=idx, comments=node["comments"])
                continue
            if sorted(decode_num_list(gi[0][len("// GroupIndex:"):])) != sorted(ctx.group_indices):
                res.violation("C18.context-annotation-group-index", src, block=idx, shown=gi[0], computed=sorted(ctx.group_indices))
            if sorted(decode_num_list(gs[0][len("// GroupSize:"):])) != sorted(ctx.group_sizes):
                res.violation("C18.context-annotation-group-size", src, block=idx, shown=gs[0], computed=sorted(ctx.group_sizes))
            res.count("annotations_checked")
    # ---------------- detector outputs: path files, JSON, filtering
    all_outputs = []
    for det in DETECTORS:
        try:
            outs = harness.run_detector_outputs(tealer, det)
        except BaseException as e:  # pylint: disable=broad-except
            res.violation("C18.detector-crash", src, detector=det, error=repr(e))
            continue
        all_outputs.append(outs)
        for out in outs:
            if not isinstance(out, ExecutionPaths):
                continue
            paths = list(out.paths)
            try:
                with harness.capture():
                    wrote = out.generate_output(Path(root))
            except BaseException as e:  # pylint: disable=broad-except
                res.violation("C18.generate-output-crash", src, detector=det, error=repr(e), paths=[[b.idx for b in p] for p in paths][:4])
                continue
            if wrote != bool(paths):
                res.violation("C18.generate-output-return", src, detector=det)
            for k, path in enumerate(paths, start=1):
                if k > 6:
                    break
                tp = read(os.path.join(root, det, f"{det}-{k}.dot"))
                if tp is None:
                    res.violation("C18.file-missing", src, file=f"{det}-{k}.dot")
                    continue
                dp = Dot(tp)
                res.count("files_read")
                red = sorted(i for i, nd in dp.nodes.items() if nd["color"] == "RED")
                want = sorted({b.idx for b in path})
                if red != want:
                    res.violation("C18.path-highlight", src, detector=det, path=[b.idx for b in path], red=red)
                if set(dp.nodes) != set(exp_nodes):
                    res.violation("C18.path-file-nodes", src, detector=det)
            # filter-paths
            shorts = [" -> ".join(str(b.idx) for b in p) for p in paths]
            pats = {".*", "", "no such path", "^0", "0$"}
            for s in shorts[:4]:
                parts = s.split(" -> ")
                pats.add("^" + parts[0] + " ")
                pats.add(parts[-1] + "$")
                for a, b in zip(parts, parts[1:]):
                    pats.add(f"{a} -> {b}")
            for pat in sorted(pats):
                out.paths = list(paths)
                out.filter_paths(pat)
                want_left = [p for p, s in zip(paths, shorts) if pat == "" or re.search(pat, s) is None]
                res.count("filter_cases")
                if [id(p) for p in out.paths] != [id(p) for p in want_left]:
                    res.violation("C18.filter-paths", src, detector=det, pattern=pat, paths=shorts,
                                  left=[" -> ".join(str(b.idx) for b in p) for p in out.paths])
            out.paths = list(paths)
            # operation sequences on one result object: every order of {to_json, filter, to_json, filter'} up to 4
            # steps - each rendering must denote the paths left at that moment (no stale rendering, no
            # filter undone or applied twice)
            seq_pats = sorted(pats - {".*", "", "no such path"})[:3] + [".*", "no such path"]
            for p1 in seq_pats:
                for p2 in (None, seq_pats[0], ".*"):
                    for pre_json in (False, True):
                        out.paths = list(paths)
                        left = list(zip(paths, shorts))
                        if pre_json:
                            j0 = out.to_json()
                            if j0.get("count") != len(left) or [x.get("short") for x in j0.get("paths", [])] != [s_ for _, s_ in left]:
                                res.violation("C18.json-paths", src, detector=det, step="before-filter", listed=[x.get("short") for x in j0.get("paths", [])])
                        for pat in (p1, p2):
                            if pat is None:
                                continue
                            out.filter_paths(pat)
                            left = [(p_, s_) for p_, s_ in left if re.search(pat, s_) is None]
                            j1 = out.to_json()
                            res.count("filter_json_sequences")
                            if j1.get("count") != len(left) or [x.get("short") for x in j1.get("paths", [])] != [s_ for _, s_ in left]:
                                res.violation("C18.json-after-filter", src, detector=det, patterns=[p1, p2], rendered_before=pre_json, paths=shorts,
                                              expected=[s_ for _, s_ in left], count=j1.get("count"),
                                              listed=[x.get("short") for x in j1.get("paths", [])])
            out.paths = list(paths)
    # JSON envelope through the CLI's own output routine
    for err in (None, "some error"):
        with harness.capture() as cap:
            try:
                handle_output(argparse.Namespace(json="-"), all_outputs, teal, err)
            except SystemExit:
                pass
        try:
            js = json.loads(cap.out[cap.out.index("{"):])
        except ValueError:
            res.violation("C18.json-not-parsable", src, out=cap.out[:200])
            continue
        res.count("json_documents")
        if js.get("success") is not (err is None):
            res.violation("C18.json-success", src, error=err, success=js.get("success"))
        if js.get("error") != err:
            res.violation("C18.json-error-field", src, error=err, actual=js.get("error"))
        flat = [o for outs in all_outputs for o in outs]
        if len(js.get("result", [])) != len(flat):
            res.violation("C18.json-result-count", src)
        else:
            for o, jr in zip(flat, js["result"]):
                if isinstance(o, ExecutionPaths) and (jr.get("count") != len(o.paths) or len(jr.get("paths", [])) != len(o.paths)):
                    res.violation("C18.json-count", src, detector=jr.get("check"), count=jr.get("count"), paths=len(o.paths))
    res.outcome((len(dot.nodes), len(exp_edges)))
    if len(exp_nodes) > 1:
        res.mark_nontrivial(src)
    res.sample({"program": src, "cfg_nodes": sorted(dot.nodes), "cfg_edges": sorted(exp_edges)})
    # keep the scratch directory small
    import shutil  # pylint: disable=import-outside-toplevel

    shutil.rmtree(root, ignore_errors=True)


def main(argv: List[str]) -> int:
    tier, seed = runner.tier_and_seed(argv)
    t0 = time.time()
    its = runner.rotate(items(tier), seed)
    total = runner.execute("mc.checks.c18", "worker", its, chunk=40)
    c = total.counters
    cov = {
        "programs": len(its),
        "states": c.get("files_read", 0),
        "transitions": c.get("filter_cases", 0) + c.get("annotations_checked", 0),
        "traces_validated_against_impl": c.get("files_read", 0) + c.get("json_documents", 0),
        "exhaustive": True,
        "rule": "G1 raw layouts + detector-space G2 programs x {cfg, subroutine-cfg, transaction-context printers, per-path DOT files of "
        "nine detectors, JSON envelope with and without error, filter patterns derived from every reported path}; states = output "
        "files read back, transitions = filter cases + context annotations compared; non-trivial = more than one block",
    }
    return runner.finish(PROP, tier, seed, "model_checking", total, t0, cov,
                         ["reference graph + the DOT/JSON readers in this file are the trusted base",
                          "call-graph export is covered by C05"])


if __name__ == "__main__":
    sys.exit(main(sys.argv[1:]))
