"""C01 - detectors never miss an approvable dangerous transaction."""
import sys
import time
from typing import Any, Dict, List

from mc import findings, runner
from mc.gen import detspaces

PROP = "C01"


def items(tier: str) -> Any:
    from mc.gen import raw, spaces  # pylint: disable=import-outside-toplevel

    have = set()
    direct: List[str] = []
    for it in detspaces.detector_spaces(tier):
        have.add(it[2])
        if it[1] == "direct" and (tier == "quick" or len(direct) < 400000):
            direct.append(it[2])
        yield it
    for s in spaces.unresolvable_constants(direct, 4000 if tier == "quick" else 20000):
        if s not in have:
            have.add(s)
            yield ("rekey-to", "shuffle", s)
    # G1: raw layouts without any check (callsub last, retsub, dead code, ...): whatever accepts is dangerous
    seen = set()
    gens = [raw.space(4, 2), raw.programs(5, 2, raw.PLAIN_SMALL)] if tier == "quick" else [raw.space(5, 2), raw.programs(6, 2, raw.PLAIN_SMALL)]
    for gen in gens:
        for s in gen:
            if s not in seen:
                seen.add(s)
                yield ("rekey-to", "raw", s)


def worker_init() -> None:
    from mc import harness  # noqa: F401  pylint: disable=import-outside-toplevel,unused-import


def worker(item: Any, res: runner.Result) -> None:
    from mc import sem, detect, harness  # pylint: disable=import-outside-toplevel

    focus, mode, src = item
    if mode in ("raw", "g1a"):
        from mc.asm import tokenize  # pylint: disable=import-outside-toplevel
        from mc.refcfg import RefGraph  # pylint: disable=import-outside-toplevel

        if not RefGraph(tokenize(src)).entered_only_through_callsub():
            res.count("filtered_bodies_not_entered_only_through_callsub")
            return
    try:
        case = sem.Case(src)
    except BaseException as e:  # pylint: disable=broad-except
        res.violation("C01.analysis-crash", item, error=repr(e))
        return
    case.stats_into(res)
    witness: Dict[str, Any] = {}
    for run in case.accepting:
        for det in detect.DETECTORS:
            if det not in witness and detect.dangerous(case, run, det):
                witness[det] = run
        if len(witness) == len(detect.DETECTORS):
            break
    # "comparisons with run-time values are a documented heuristic of the tool and lie outside the claim":
    # a Fee comparand loaded with intc from a constant block the tool cannot resolve is such a value
    fee_heuristic = any(l.op.startswith("intc") and l.op != "intcblock" for l in case.lines) and any(
        l.args and l.args[-1] == "Fee" for l in case.lines)
    verdict = []
    for det in detect.DETECTORS:
        if det == "missing-fee-check" and fee_heuristic and det in witness:
            res.count("outside_claim:fee_compared_with_value_the_tool_cannot_evaluate")
            del witness[det]
        try:
            paths = harness.run_detector(case.tealer, det)
        except BaseException as e:  # pylint: disable=broad-except
            res.violation("C01.detector-crash", item, detector=det, error=repr(e))
            continue
        res.count("detector_runs")
        verdict.append((det, det in witness, len(paths) > 0))
        if det in witness:
            res.count("dangerous_programs:" + det)
            if not paths:
                res.violation("C01.missed-report", item, detector=det, env=repr(witness[det].env),
                              walk=list(case.block_walk(witness[det])))
    res.outcome(tuple(verdict))
    if focus in witness:
        res.mark_nontrivial(src)
    res.sample({"program": src, "focus": focus, "verdicts": [list(v) for v in verdict]})


_ATTR = None


def attribute(entry: Any, v: Any) -> bool:
    global _ATTR  # pylint: disable=global-statement
    if _ATTR is None:
        _ATTR = findings.any_of(
            findings.by_repair(worker, lambda it: it[2], lambda it, s: (it[0], it[1], s), patches=("kind-partitions",)),
            findings.by_patch(worker),
            findings.by_predicate(),
        )
    return _ATTR(entry, v)


def main(argv: List[str]) -> int:
    tier, seed = runner.tier_and_seed(argv)
    t0 = time.time()
    its, _ = runner.work_list(items, tier, seed)
    total = runner.execute("mc.checks.c01", "worker", its, chunk=40)
    c = total.counters
    cov = {
        "programs": c.get("items", 0),
        "states": c.get("states", 0),
        "transitions": c.get("transitions", 0),
        "traces_validated_against_impl": c.get("detector_runs", 0),
        "exhaustive": c.get("capped_programs", 0) == 0,
        "rule": "per-detector layered G2 spaces (mc/gen/detspaces.py); every program is explored by E1 over all groups and run "
        "through all nine detectors; non-trivial = a dangerous accepting execution exists for the focus detector",
    }
    return runner.finish(PROP, tier, seed, "model_checking", total, t0, cov,
                         ["reference AVM is the trusted base", "an unbound input counts as carrying every value",
                          "application creation (ApplicationID 0) is not counted as an update/delete"])


if __name__ == "__main__":
    sys.exit(main(sys.argv[1:]))
