"""C15 - verdicts are invariant under meaning-preserving rewrites of the source.

Metamorphic: every base program (G2) x every single rewrite and every composition of two
(rename labels, layout, hex/octal integers, named<->numeric constants, int->pushint,
int->intcblock+intc, stack-neutral padding) and every placement of the subroutine bodies
(before/after main, reordered).  The neutrality of each rewrite is itself checked with E1.
"""
import itertools
import sys
import time
from typing import Any, Dict, List, Optional, Set, Tuple

from mc import runner
from mc.gen import atoms as A
from mc.gen import core
from mc.gen import rewrites as RW

PROP = "C15"
Z = "global ZeroAddress"
ATOMS: List[A.Atom] = [
    A.FREE,
    ["txn RekeyTo", Z, "=="],
    ["txn Fee", "int 1000", "<="],
    ["global GroupSize", "int 2", "=="],
    ["txn TypeEnum", "int pay", "=="],
    ["txn TypeEnum", "int 6", "=="],
    ["txn OnCompletion", "int 4", "!="],
    ["int NoOp", "txn OnCompletion", "=="],
    ["txn GroupIndex", "int 1", "<"],
    ["int 272000", "txn Fee", ">="],
    ["gtxn 1 RekeyTo", Z, "=="],
    ["int 1", "gtxns RekeyTo", Z, "=="],
    ["txn GroupIndex", "int 1", "+", "gtxns RekeyTo", Z, "=="],
    ["txn Fee", "int 43981", "<="],
]


def items(tier: str) -> List[Any]:
    out: List[Any] = []
    sizes = (1, 2) if tier == "quick" else (1, 2, 3)
    alpha = ATOMS[:9] + ATOMS[11:] if tier == "quick" else ATOMS  # 43981 = 0xABCD: every hex digit is a letter
    for nsubs in (0, 1, 2):
        o = core.Opts(cond_level=0, nsubs=nsubs, kinds=("assert", "ret", "ret1", "err", "if", "while", "call"))
        for size in sizes if nsubs < 2 else (2, 3):
            for prog, k in core.skeletons(size, o):
                if k == 0:
                    fills: List[List[int]] = [[]]
                elif k == 1:
                    fills = [[a] for a in range(1, len(alpha))]
                else:
                    # one tracked atom per slot position, the others free; plus two fixed mixed fillings
                    fills = []
                    for j in range(k):
                        for a in (1, 2, 4, 5, 6) if (tier == "quick" or size == 3) else range(1, len(alpha)):
                            fills.append([a if i == j else 0 for i in range(k)])
                    fills.append([(i % (len(alpha) - 1)) + 1 for i in range(k)])
                for f in fills:
                    out.append((prog, f))
    return out


def worker_init() -> None:
    from mc import harness  # noqa: F401  pylint: disable=import-outside-toplevel,unused-import


def observe(src: str) -> Optional[Dict[str, Any]]:
    """Context per instruction line (the context of the block holding it) and detector paths as
    flattened line sequences - both independent of how glue code splits blocks."""
    from mc import harness  # pylint: disable=import-outside-toplevel
    from mc.detect import DETECTORS  # pylint: disable=import-outside-toplevel

    tealer, teal, function, _ = harness.analyze(src)
    main_ids = set(id(b) for b in function.main.blocks)
    ctxs = {}
    for b in function.blocks:
        c = function.transaction_context(b)
        snap = harness.ctx_snapshot(c)
        snap["g0"] = harness.ctx_snapshot(c.gtxn_context(0))
        snap["a1"] = harness.ctx_snapshot(c.absolute_context(1))
        snap["r1"] = harness.ctx_snapshot(c.relative_context(1))
        v = repr(sorted(snap.items(), key=repr))
        for ins in b.instructions:
            ctxs[(id(b) in main_ids, ins.line)] = v
    paths = {}
    for det in DETECTORS:
        paths[det] = [tuple(i.line for b in p for i in b.instructions) for p in harness.run_detector(tealer, det)]
    return {"ctx": ctxs, "paths": paths}


def behaviour(src: str, consts: Any = ()) -> Any:
    """(status, final valuation) of every E1 run; ``consts`` are added to the program's own
    constants so that two spellings of a program are explored over the same representatives."""
    from mc.machine import Explorer, Program  # pylint: disable=import-outside-toplevel

    prog = Program(src)
    prog.consts |= set(consts)
    runs = Explorer(prog).explore()
    return sorted((r.status, repr(sorted(r.env.items(), key=repr))) for r in runs)


def constants_of(src: str) -> Any:
    from mc.machine import Program  # pylint: disable=import-outside-toplevel

    return Program(src).consts


def compare(base: Dict[str, Any], new: Dict[str, Any], lmap: Dict[int, int]) -> List[Tuple[str, Dict[str, Any]]]:
    out: List[Tuple[str, Dict[str, Any]]] = []
    image = set(lmap.values())
    for (is_main, line), v in base["ctx"].items():
        if line not in lmap:
            continue
        key = (is_main, lmap[line])
        if key not in new["ctx"]:
            out.append(("C15.instruction-lost", {"block": line, "expected_at": lmap[line]}))
        elif new["ctx"][key] != v:
            out.append(("C15.context-changed", {"block": line, "before": v[:300], "after": new["ctx"][key][:300]}))
    for det, ps in base["paths"].items():
        mp = sorted(tuple(lmap[l] for l in p if l in lmap) for p in ps)
        np_ = sorted(tuple(l for l in p if l in image) for p in new["paths"][det])
        if mp != np_:
            out.append(("C15.detector-paths-changed", {"detector": det, "before": mp[:4], "after": np_[:4]}))
    return out


def worker(item: Any, res: runner.Result) -> None:  # pylint: disable=too-many-locals,too-many-branches
    prog, fill = item
    prog = (tuple(map(_tup, prog[0])), tuple(tuple(map(_tup, sb)) for sb in prog[1]))
    atoms = [ATOMS[a] for a in fill]
    base_src, base_tags = core.render_tagged(prog, atoms)
    try:
        base = observe(base_src)
    except BaseException as e:  # pylint: disable=broad-except
        res.violation("C15.analysis-crash", item, error=repr(e), program=base_src)
        return
    base_consts = constants_of(base_src)
    beh_cache: Dict[Any, Any] = {}
    names = list(RW.TEXT_REWRITES)
    combos: List[List[str]] = [[n] for n in names] + [list(c) for c in itertools.permutations(names, 2)]
    seen_src: Set[str] = {base_src}
    variants: List[Tuple[str, str, Dict[int, int]]] = []
    for combo in combos:
        r = RW.compose(base_src, combo)
        if r is None or r[0] in seen_src:
            continue
        seen_src.add(r[0])
        variants.append(("+".join(combo), r[0], r[1]))
    # subroutine placement
    nsub = len(prog[1])
    if nsub:
        tag_line = {t: i for i, t in enumerate(base_tags, start=1)}
        orders = list(itertools.permutations(range(nsub)))
        for subs_first in (False, True):
            for order in orders:
                src2, tags2 = core.render_tagged(prog, atoms, sub_order=order, subs_first=subs_first)
                if src2 in seen_src:
                    continue
                seen_src.add(src2)
                line2 = {t: i for i, t in enumerate(tags2, start=1)}
                lmap = {tag_line[t]: line2[t] for t in tag_line if t in line2}
                variants.append((f"move-subroutines(first={subs_first},order={list(order)})", src2, lmap))
                # and composed with every text rewrite
                for n in names:
                    r = RW.TEXT_REWRITES[n](src2)
                    if r is None or r[0] in seen_src:
                        continue
                    seen_src.add(r[0])
                    variants.append((f"move-subroutines+{n}", r[0], {k: r[1][v] for k, v in lmap.items() if v in r[1]}))
    for name, src2, lmap in variants:
        res.count("rewritten_programs")
        # the rewrite itself must be neutral (machinery check, not a property violation)
        if nsub == 0 or "move" not in name:
            cs = frozenset(base_consts | constants_of(src2))
            if cs not in beh_cache:
                beh_cache[cs] = behaviour(base_src, cs)
            if behaviour(src2, cs) != beh_cache[cs]:
                res.errors.append(f"rewrite {name} is not behaviour-preserving on:\n{base_src}\n->\n{src2}")
                continue
        try:
            new = observe(src2)
        except BaseException as e:  # pylint: disable=broad-except
            res.violation("C15.analysis-crash", item, line=name, rewrite=name, error=repr(e), program=src2)
            continue
        for kind, det in compare(base, new, lmap):
            res.violation(kind, item, line=name, rewrite=name, original=base_src, rewritten=src2, **det)
    res.outcome(tuple(sorted(base["paths"].items())))
    if variants:
        res.mark_nontrivial(base_src)
    res.sample({"program": base_src, "rewrites": [n for n, _, _ in variants][:12]})


def _tup(x: Any) -> Any:
    if isinstance(x, list):
        return tuple(_tup(y) for y in x)
    if isinstance(x, tuple):
        return tuple(_tup(y) for y in x)
    return x


def main(argv: List[str]) -> int:
    tier, seed = runner.tier_and_seed(argv)
    t0 = time.time()
    its = runner.rotate(items(tier), seed)
    total = runner.execute("mc.checks.c15", "worker", its, chunk=10)
    c = total.counters
    cov = {
        "evaluations": c.get("rewritten_programs", 0),
        "base_programs": len(its),
        "rule": "G2 base programs (size <= 2, 0-2 subroutines; <= 3 in thorough) over a mixed alphabet x 9 text rewrites, all ordered pairs of "
        "them, every placement/order of the subroutine bodies and its composition with every text rewrite; distinct = rewritten text; "
        "non-trivial = base program has at least one applicable rewrite",
        "exhaustive": True,
    }
    return runner.finish(PROP, tier, seed, "exploration", total, t0, cov,
                         ["each rewrite's neutrality is checked with the reference AVM (equal sets of (status, final valuation))",
                          "blocks are matched through the line map of the rewrite; main copies and subroutine blocks are kept apart"])


if __name__ == "__main__":
    sys.exit(main(sys.argv[1:]))
