"""Independent AVM opcode / field tables for TEAL v1-v8 (DESIGN.md 2.6, Appendix D).

Hand-written from the AVM specification; NOT derived from tealer.  ``cross_check()`` compares
names, modes and (for versions >= 3) introduction versions with PyTeal's tables, the only
second source available offline.  Cells only this table vouches for (costs, pops/pushes,
v1-vs-v2) are ``single_source``.

Immediate kinds: u8 (small uint), u64 (uint64 or named constant), label, labels (0+),
ints (0+ uint64), bytes1 (one byte-string literal), bytess (0+ byte strings), addr, method,
txnf (scalar txn field), txnaf (array txn field), gf (global field), ahf, apf, appf, acf
(asset holding / asset params / app params / acct params fields), ecdsa, b64, json, vrf,
blockf, i8 (signed frame index).
"""
from typing import Any, Callable, Dict, List, NamedTuple, Optional, Sequence, Tuple, Union

ANY, APP, SIG = "any", "app", "sig"
IntOrFn = Union[int, Callable[[Sequence[Any]], int]]


class Op(NamedTuple):
    name: str
    version: int
    mode: str
    pops: IntOrFn
    pushes: IntOrFn
    cost: Any  # int | {min_version: cost} | callable(imms, version)
    imms: Tuple[str, ...]


def _n(i: int = 0, add: int = 0) -> Callable[[Sequence[Any]], int]:
    return lambda im: int(im[i]) + add


def _cnt(add: int = 0) -> Callable[[Sequence[Any]], int]:
    return lambda im: len(im) + add


def _ecdsa_cost(k1: int, r1: int) -> Callable[[Sequence[Any], int], int]:
    return lambda im, _v: k1 if im[0] == "Secp256k1" else r1


OPS: List[Op] = [
    # ---- v1
    Op("err", 1, ANY, 0, 0, 1, ()),
    Op("sha256", 1, ANY, 1, 1, {1: 7, 2: 35}, ()),
    Op("keccak256", 1, ANY, 1, 1, {1: 26, 2: 130}, ()),
    Op("sha512_256", 1, ANY, 1, 1, {1: 9, 2: 45}, ()),
    Op("ed25519verify", 1, ANY, 3, 1, 1900, ()),
    Op("+", 1, ANY, 2, 1, 1, ()),
    Op("-", 1, ANY, 2, 1, 1, ()),
    Op("/", 1, ANY, 2, 1, 1, ()),
    Op("*", 1, ANY, 2, 1, 1, ()),
    Op("<", 1, ANY, 2, 1, 1, ()),
    Op(">", 1, ANY, 2, 1, 1, ()),
    Op("<=", 1, ANY, 2, 1, 1, ()),
    Op(">=", 1, ANY, 2, 1, 1, ()),
    Op("&&", 1, ANY, 2, 1, 1, ()),
    Op("||", 1, ANY, 2, 1, 1, ()),
    Op("==", 1, ANY, 2, 1, 1, ()),
    Op("!=", 1, ANY, 2, 1, 1, ()),
    Op("!", 1, ANY, 1, 1, 1, ()),
    Op("len", 1, ANY, 1, 1, 1, ()),
    Op("itob", 1, ANY, 1, 1, 1, ()),
    Op("btoi", 1, ANY, 1, 1, 1, ()),
    Op("%", 1, ANY, 2, 1, 1, ()),
    Op("|", 1, ANY, 2, 1, 1, ()),
    Op("&", 1, ANY, 2, 1, 1, ()),
    Op("^", 1, ANY, 2, 1, 1, ()),
    Op("~", 1, ANY, 1, 1, 1, ()),
    Op("mulw", 1, ANY, 2, 2, 1, ()),
    Op("intcblock", 1, ANY, 0, 0, 1, ("ints",)),
    Op("intc", 1, ANY, 0, 1, 1, ("u8",)),
    Op("intc_0", 1, ANY, 0, 1, 1, ()),
    Op("intc_1", 1, ANY, 0, 1, 1, ()),
    Op("intc_2", 1, ANY, 0, 1, 1, ()),
    Op("intc_3", 1, ANY, 0, 1, 1, ()),
    Op("bytecblock", 1, ANY, 0, 0, 1, ("bytess",)),
    Op("bytec", 1, ANY, 0, 1, 1, ("u8",)),
    Op("bytec_0", 1, ANY, 0, 1, 1, ()),
    Op("bytec_1", 1, ANY, 0, 1, 1, ()),
    Op("bytec_2", 1, ANY, 0, 1, 1, ()),
    Op("bytec_3", 1, ANY, 0, 1, 1, ()),
    Op("arg", 1, SIG, 0, 1, 1, ("u8",)),
    Op("arg_0", 1, SIG, 0, 1, 1, ()),
    Op("arg_1", 1, SIG, 0, 1, 1, ()),
    Op("arg_2", 1, SIG, 0, 1, 1, ()),
    Op("arg_3", 1, SIG, 0, 1, 1, ()),
    Op("txn", 1, ANY, 0, 1, 1, ("txnf",)),
    Op("global", 1, ANY, 0, 1, 1, ("gf",)),
    Op("gtxn", 1, ANY, 0, 1, 1, ("u8", "txnf")),
    Op("load", 1, ANY, 0, 1, 1, ("u8",)),
    Op("store", 1, ANY, 1, 0, 1, ("u8",)),
    Op("bnz", 1, ANY, 1, 0, 1, ("label",)),
    Op("pop", 1, ANY, 1, 0, 1, ()),
    Op("dup", 1, ANY, 1, 2, 1, ()),
    # pseudo-ops of the assembler (cost of the opcode they assemble to)
    Op("int", 1, ANY, 0, 1, 1, ("u64",)),
    Op("byte", 1, ANY, 0, 1, 1, ("bytes1",)),
    Op("addr", 1, ANY, 0, 1, 1, ("addr",)),
    # ---- v2
    Op("addw", 2, ANY, 2, 2, 1, ()),
    Op("txna", 2, ANY, 0, 1, 1, ("txnaf", "u8")),
    Op("gtxna", 2, ANY, 0, 1, 1, ("u8", "txnaf", "u8")),
    Op("bz", 2, ANY, 1, 0, 1, ("label",)),
    Op("b", 2, ANY, 0, 0, 1, ("label",)),
    Op("return", 2, ANY, 1, 0, 1, ()),
    Op("dup2", 2, ANY, 2, 4, 1, ()),
    Op("concat", 2, ANY, 2, 1, 1, ()),
    Op("substring", 2, ANY, 1, 1, 1, ("u8", "u8")),
    Op("substring3", 2, ANY, 3, 1, 1, ()),
    Op("balance", 2, APP, 1, 1, 1, ()),
    Op("app_opted_in", 2, APP, 2, 1, 1, ()),
    Op("app_local_get", 2, APP, 2, 1, 1, ()),
    Op("app_local_get_ex", 2, APP, 3, 2, 1, ()),
    Op("app_global_get", 2, APP, 1, 1, 1, ()),
    Op("app_global_get_ex", 2, APP, 2, 2, 1, ()),
    Op("app_local_put", 2, APP, 3, 0, 1, ()),
    Op("app_global_put", 2, APP, 2, 0, 1, ()),
    Op("app_local_del", 2, APP, 2, 0, 1, ()),
    Op("app_global_del", 2, APP, 1, 0, 1, ()),
    Op("asset_holding_get", 2, APP, 2, 2, 1, ("ahf",)),
    Op("asset_params_get", 2, APP, 1, 2, 1, ("apf",)),
    # ---- v3
    Op("assert", 3, ANY, 1, 0, 1, ()),
    Op("pushbytes", 3, ANY, 0, 1, 1, ("bytes1",)),
    Op("pushint", 3, ANY, 0, 1, 1, ("u64",)),
    Op("gtxns", 3, ANY, 1, 1, 1, ("txnf",)),
    Op("gtxnsa", 3, ANY, 1, 1, 1, ("txnaf", "u8")),
    Op("getbit", 3, ANY, 2, 1, 1, ()),
    Op("setbit", 3, ANY, 3, 1, 1, ()),
    Op("getbyte", 3, ANY, 2, 1, 1, ()),
    Op("setbyte", 3, ANY, 3, 1, 1, ()),
    Op("swap", 3, ANY, 2, 2, 1, ()),
    Op("select", 3, ANY, 3, 1, 1, ()),
    Op("dig", 3, ANY, _n(0, 1), _n(0, 2), 1, ("u8",)),
    Op("min_balance", 3, APP, 1, 1, 1, ()),
    # ---- v4
    Op("divmodw", 4, ANY, 4, 4, 20, ()),
    Op("callsub", 4, ANY, 0, 0, 1, ("label",)),
    Op("retsub", 4, ANY, 0, 0, 1, ()),
    Op("shl", 4, ANY, 2, 1, 1, ()),
    Op("shr", 4, ANY, 2, 1, 1, ()),
    Op("sqrt", 4, ANY, 1, 1, 4, ()),
    Op("bitlen", 4, ANY, 1, 1, 1, ()),
    Op("exp", 4, ANY, 2, 1, 1, ()),
    Op("expw", 4, ANY, 2, 2, 10, ()),
    Op("bzero", 4, ANY, 1, 1, 1, ()),
    Op("b+", 4, ANY, 2, 1, 10, ()),
    Op("b-", 4, ANY, 2, 1, 10, ()),
    Op("b/", 4, ANY, 2, 1, 20, ()),
    Op("b*", 4, ANY, 2, 1, 20, ()),
    Op("b%", 4, ANY, 2, 1, 20, ()),
    Op("b<", 4, ANY, 2, 1, 1, ()),
    Op("b>", 4, ANY, 2, 1, 1, ()),
    Op("b<=", 4, ANY, 2, 1, 1, ()),
    Op("b>=", 4, ANY, 2, 1, 1, ()),
    Op("b==", 4, ANY, 2, 1, 1, ()),
    Op("b!=", 4, ANY, 2, 1, 1, ()),
    Op("b|", 4, ANY, 2, 1, 6, ()),
    Op("b&", 4, ANY, 2, 1, 6, ()),
    Op("b^", 4, ANY, 2, 1, 6, ()),
    Op("b~", 4, ANY, 1, 1, 4, ()),
    Op("gload", 4, APP, 0, 1, 1, ("u8", "u8")),
    Op("gloads", 4, APP, 1, 1, 1, ("u8",)),
    Op("gaid", 4, APP, 0, 1, 1, ("u8",)),
    Op("gaids", 4, APP, 1, 1, 1, ()),
    # ---- v5
    Op("ecdsa_verify", 5, ANY, 5, 1, _ecdsa_cost(1700, 2500), ("ecdsa",)),
    Op("ecdsa_pk_decompress", 5, ANY, 1, 2, _ecdsa_cost(650, 2400), ("ecdsa",)),
    Op("ecdsa_pk_recover", 5, ANY, 4, 2, 2000, ("ecdsa",)),
    Op("cover", 5, ANY, _n(0, 1), _n(0, 1), 1, ("u8",)),
    Op("uncover", 5, ANY, _n(0, 1), _n(0, 1), 1, ("u8",)),
    Op("loads", 5, ANY, 1, 1, 1, ()),
    Op("stores", 5, ANY, 2, 0, 1, ()),
    Op("extract", 5, ANY, 1, 1, 1, ("u8", "u8")),
    Op("extract3", 5, ANY, 3, 1, 1, ()),
    Op("extract_uint16", 5, ANY, 2, 1, 1, ()),
    Op("extract_uint32", 5, ANY, 2, 1, 1, ()),
    Op("extract_uint64", 5, ANY, 2, 1, 1, ()),
    Op("txnas", 5, ANY, 1, 1, 1, ("txnaf",)),
    Op("gtxnas", 5, ANY, 1, 1, 1, ("u8", "txnaf")),
    Op("gtxnsas", 5, ANY, 2, 1, 1, ("txnaf",)),
    Op("args", 5, SIG, 1, 1, 1, ()),
    Op("app_params_get", 5, APP, 1, 2, 1, ("appf",)),
    Op("log", 5, APP, 1, 0, 1, ()),
    Op("itxn_begin", 5, APP, 0, 0, 1, ()),
    Op("itxn_field", 5, APP, 1, 0, 1, ("txnf",)),
    Op("itxn_submit", 5, APP, 0, 0, 1, ()),
    Op("itxn", 5, APP, 0, 1, 1, ("txnf",)),
    Op("itxna", 5, APP, 0, 1, 1, ("txnaf", "u8")),
    # ---- v6
    Op("bsqrt", 6, ANY, 1, 1, 40, ()),
    Op("divw", 6, ANY, 3, 1, 1, ()),
    Op("acct_params_get", 6, APP, 1, 2, 1, ("acf",)),
    Op("itxn_next", 6, APP, 0, 0, 1, ()),
    Op("gitxn", 6, APP, 0, 1, 1, ("u8", "txnf")),
    Op("gitxna", 6, APP, 0, 1, 1, ("u8", "txnaf", "u8")),
    Op("gloadss", 6, APP, 2, 1, 1, ()),
    Op("itxnas", 6, APP, 1, 1, 1, ("txnaf",)),
    Op("gitxnas", 6, APP, 1, 1, 1, ("u8", "txnaf")),
    # ---- v7
    Op("replace2", 7, ANY, 2, 1, 1, ("u8",)),
    Op("replace3", 7, ANY, 3, 1, 1, ()),
    # assembler macro: `replace s` is replace2 s, bare `replace` is replace3
    Op("replace", 7, ANY, lambda im: 2 if im else 3, 1, 1, ("optu8",)),
    Op("base64_decode", 7, ANY, 1, 1, 1, ("b64",)),  # 1 + 1 per 16 bytes of input; static part 1
    Op("json_ref", 7, ANY, 2, 1, 25, ("json",)),  # 25 + 2 per 7 bytes; static part 25
    Op("ed25519verify_bare", 7, ANY, 3, 1, 1900, ()),
    Op("sha3_256", 7, ANY, 1, 1, 130, ()),
    Op("vrf_verify", 7, ANY, 3, 2, 5700, ("vrf",)),
    Op("block", 7, ANY, 1, 1, 1, ("blockf",)),
    # ---- v8
    Op("bury", 8, ANY, _n(0, 1), _n(0, 0), 1, ("u8",)),
    Op("popn", 8, ANY, _n(0, 0), 0, 1, ("u8",)),
    Op("dupn", 8, ANY, 1, _n(0, 1), 1, ("u8",)),
    Op("pushbytess", 8, ANY, 0, _cnt(), 1, ("bytess",)),
    Op("pushints", 8, ANY, 0, _cnt(), 1, ("ints",)),
    Op("proto", 8, ANY, 0, 0, 1, ("u8", "u8")),
    Op("frame_dig", 8, ANY, 0, 1, 1, ("i8",)),
    Op("frame_bury", 8, ANY, 1, 0, 1, ("i8",)),
    Op("switch", 8, ANY, 1, 0, 1, ("labels",)),
    Op("match", 8, ANY, _cnt(1), 0, 1, ("labels",)),
    Op("box_create", 8, APP, 2, 1, 1, ()),
    Op("box_extract", 8, APP, 3, 1, 1, ()),
    Op("box_replace", 8, APP, 3, 0, 1, ()),
    Op("box_del", 8, APP, 1, 1, 1, ()),
    Op("box_len", 8, APP, 1, 2, 1, ()),
    Op("box_get", 8, APP, 1, 2, 1, ()),
    Op("box_put", 8, APP, 2, 0, 1, ()),
]
BY_NAME: Dict[str, Op] = {o.name: o for o in OPS}
PSEUDO = ("int", "byte", "addr", "method", "replace")

# ---- fields: name -> introduction version ------------------------------------------------------
TXN_FIELDS: Dict[str, int] = {
    "Sender": 1, "Fee": 1, "FirstValid": 1, "FirstValidTime": 7, "LastValid": 1, "Note": 1, "Lease": 1, "Receiver": 1,
    "Amount": 1, "CloseRemainderTo": 1, "VotePK": 1, "SelectionPK": 1, "VoteFirst": 1, "VoteLast": 1, "VoteKeyDilution": 1,
    "Type": 1, "TypeEnum": 1, "XferAsset": 1, "AssetAmount": 1, "AssetSender": 1, "AssetReceiver": 1, "AssetCloseTo": 1,
    "GroupIndex": 1, "TxID": 1,
    "ApplicationID": 2, "OnCompletion": 2, "NumAppArgs": 2, "NumAccounts": 2, "ApprovalProgram": 2, "ClearStateProgram": 2,
    "RekeyTo": 2, "ConfigAsset": 2, "ConfigAssetTotal": 2, "ConfigAssetDecimals": 2, "ConfigAssetDefaultFrozen": 2,
    "ConfigAssetUnitName": 2, "ConfigAssetName": 2, "ConfigAssetURL": 2, "ConfigAssetMetadataHash": 2, "ConfigAssetManager": 2,
    "ConfigAssetReserve": 2, "ConfigAssetFreeze": 2, "ConfigAssetClawback": 2, "FreezeAsset": 2, "FreezeAssetAccount": 2,
    "FreezeAssetFrozen": 2,
    "NumAssets": 3, "NumApplications": 3, "GlobalNumUint": 3, "GlobalNumByteSlice": 3, "LocalNumUint": 3, "LocalNumByteSlice": 3,
    "ExtraProgramPages": 4,
    "Nonparticipation": 5, "NumLogs": 5, "CreatedAssetID": 5, "CreatedApplicationID": 5,
    "LastLog": 6, "StateProofPK": 6,
    "NumApprovalProgramPages": 7, "NumClearStateProgramPages": 7,
}
TXN_ARRAY_FIELDS: Dict[str, int] = {
    "ApplicationArgs": 2, "Accounts": 2, "Assets": 3, "Applications": 3, "Logs": 5, "ApprovalProgramPages": 7,
    "ClearStateProgramPages": 7,
}
GLOBAL_FIELDS: Dict[str, Tuple[int, str]] = {
    "MinTxnFee": (1, ANY), "MinBalance": (1, ANY), "MaxTxnLife": (1, ANY), "ZeroAddress": (1, ANY), "GroupSize": (1, ANY),
    "LogicSigVersion": (2, ANY), "Round": (2, APP), "LatestTimestamp": (2, APP), "CurrentApplicationID": (2, APP),
    "CreatorAddress": (3, APP), "CurrentApplicationAddress": (5, APP), "GroupID": (5, ANY),
    "OpcodeBudget": (6, ANY), "CallerApplicationID": (6, APP), "CallerApplicationAddress": (6, APP),
}
ASSET_HOLDING_FIELDS = {"AssetBalance": 2, "AssetFrozen": 2}
ASSET_PARAMS_FIELDS = {
    "AssetTotal": 2, "AssetDecimals": 2, "AssetDefaultFrozen": 2, "AssetUnitName": 2, "AssetName": 2, "AssetURL": 2,
    "AssetMetadataHash": 2, "AssetManager": 2, "AssetReserve": 2, "AssetFreeze": 2, "AssetClawback": 2, "AssetCreator": 5,
}
APP_PARAMS_FIELDS = {
    "AppApprovalProgram": 5, "AppClearStateProgram": 5, "AppGlobalNumUint": 5, "AppGlobalNumByteSlice": 5, "AppLocalNumUint": 5,
    "AppLocalNumByteSlice": 5, "AppExtraProgramPages": 5, "AppCreator": 5, "AppAddress": 5,
}
ACCT_PARAMS_FIELDS = {
    "AcctBalance": 6, "AcctMinBalance": 6, "AcctAuthAddr": 6,
    "AcctTotalNumUint": 8, "AcctTotalNumByteSlice": 8, "AcctTotalExtraAppPages": 8, "AcctTotalAppsCreated": 8,
    "AcctTotalAppsOptedIn": 8, "AcctTotalAssetsCreated": 8, "AcctTotalAssets": 8, "AcctTotalBoxes": 8, "AcctTotalBoxBytes": 8,
}
ECDSA = ("Secp256k1", "Secp256r1")
B64 = ("URLEncoding", "StdEncoding")
JSON = ("JSONString", "JSONUint64", "JSONObject")
VRF = ("VrfAlgorand",)
BLOCKF = ("BlkSeed", "BlkTimestamp")
FIELD_GROUPS: Dict[str, Dict[str, int]] = {
    "txnf": TXN_FIELDS, "txnaf": TXN_ARRAY_FIELDS, "gf": {k: v[0] for k, v in GLOBAL_FIELDS.items()},
    "ahf": ASSET_HOLDING_FIELDS, "apf": ASSET_PARAMS_FIELDS, "appf": APP_PARAMS_FIELDS, "acf": ACCT_PARAMS_FIELDS,
}
# itxn_field may set array fields as well, and cannot set read-only fields; kept out of scope.

SINGLE_SOURCE_NOTE = (
    "costs, pops/pushes and v1-vs-v2 introduction versions are vouched for by this table only "
    "(PyTeal floors versions at 2 and has no costs / stack effects)"
)


def pops(op: Op, imms: Sequence[Any]) -> int:
    return op.pops(imms) if callable(op.pops) else op.pops


def pushes(op: Op, imms: Sequence[Any]) -> int:
    return op.pushes(imms) if callable(op.pushes) else op.pushes


def cost(op: Op, imms: Sequence[Any], version: int) -> int:
    c = op.cost
    if callable(c):
        return c(imms, version)
    if isinstance(c, dict):
        best = None
        for v in sorted(c):
            if v <= version:
                best = c[v]
        return best if best is not None else c[min(c)]
    return c


def cross_check() -> List[str]:
    """Compare with PyTeal; returns a list of disagreements (empty = consistent)."""
    problems: List[str] = []
    try:
        from pyteal.ir.ops import Op as POp, Mode  # pylint: disable=import-outside-toplevel
        from pyteal import TxnField  # pylint: disable=import-outside-toplevel
        from pyteal.ast.global_ import GlobalField  # pylint: disable=import-outside-toplevel
    except Exception as e:  # pylint: disable=broad-except
        return [f"pyteal not importable: {e!r}"]
    pt = {o.value.value: o.value for o in POp}
    for o in OPS:
        p = pt.get(o.name)
        if p is None:
            continue
        mode = ANY if p.mode == (Mode.Signature | Mode.Application) else (APP if p.mode == Mode.Application else SIG)
        if mode != o.mode:
            problems.append(f"mode of {o.name}: table {o.mode}, pyteal {mode}")
        if max(o.version, 2) != max(p.min_version, 2) and o.name not in PSEUDO:
            problems.append(f"version of {o.name}: table {o.version}, pyteal {p.min_version}")
    for name, p in pt.items():
        if name not in BY_NAME and p.min_version <= 8 and name not in ("//", "method"):
            problems.append(f"opcode {name} (v{p.min_version}) missing from table")
    for f in TxnField:
        tbl = TXN_FIELDS.get(f.arg_name, TXN_ARRAY_FIELDS.get(f.arg_name))
        if tbl is None:
            if f.min_version <= 8:
                problems.append(f"txn field {f.arg_name} missing from table")
        elif max(tbl, 2) != max(f.min_version, 2):
            problems.append(f"txn field {f.arg_name}: table {tbl}, pyteal {f.min_version}")
    for f in GlobalField:
        tbl = GLOBAL_FIELDS.get(f.arg_name)
        if tbl is None:
            if f.min_version <= 8:
                problems.append(f"global field {f.arg_name} missing from table")
        elif max(tbl[0], 2) != max(f.min_version, 2):
            problems.append(f"global field {f.arg_name}: table {tbl[0]}, pyteal {f.min_version}")
    return problems
