"""Shared runner: worker pool, result merging, findings attribution, evidence, replays."""
import hashlib
import itertools
import json
import multiprocessing as mp
import os
import signal
import shutil
import subprocess
import sys
import tempfile
import time
import traceback
from typing import Any, Callable, Dict, Iterable, Iterator, List, Optional, Tuple

ROOT = os.path.dirname(os.path.dirname(os.path.abspath(__file__)))
EVIDENCE_DIR = os.environ.get("VERIF_EVIDENCE_DIR") or os.path.join(ROOT, "evidence")  # override only for mutant runs
REPLAY_DIR = os.environ.get("VERIF_REPLAY_DIR") or os.path.join(ROOT, "replays")
WORK_DIR = os.path.join(ROOT, ".work")
NPROC = int(os.environ.get("VERIF_PROCS", "16"))


class Result:
    """Accumulator returned by workers and merged by the parent."""

    def __init__(self) -> None:
        self.counters: Dict[str, int] = {}
        self.violations: List[Dict[str, Any]] = []
        self.outcomes: set = set()
        self.nontrivial: set = set()
        self.samples: List[Any] = []
        self.errors: List[str] = []

    def count(self, name: str, n: int = 1) -> None:
        self.counters[name] = self.counters.get(name, 0) + n

    def violation(self, kind: str, item: Any, **detail: Any) -> None:
        if len(self.violations) < 400:
            self.violations.append({"kind": kind, "item": item, "detail": detail})
        self.count("violations_raw")

    def outcome(self, key: Any) -> None:
        self.outcomes.add(hashlib.md5(repr(key).encode()).hexdigest()[:12])

    def mark_nontrivial(self, key: Any) -> None:
        self.nontrivial.add(hashlib.md5(repr(key).encode()).hexdigest()[:12])

    def sample(self, obj: Any, limit: int = 3) -> None:
        if len(self.samples) < limit:
            self.samples.append(obj)

    def merge(self, other: "Result") -> None:
        for k, v in other.counters.items():
            self.counters[k] = self.counters.get(k, 0) + v
        room = 2000 - len(self.violations)
        if room > 0:
            self.violations.extend(other.violations[:room])
        self.outcomes |= other.outcomes
        self.nontrivial |= other.nontrivial
        for s in other.samples:
            if len(self.samples) < 3:
                self.samples.append(s)
        self.errors.extend(other.errors[:5])


def chunked(it: Iterable[Any], size: int) -> Iterator[List[Any]]:
    it = iter(it)
    while True:
        chunk = list(itertools.islice(it, size))
        if not chunk:
            return
        yield chunk


_WORKER: Optional[Callable[[Any, Result], None]] = None
_ATTRIBUTE: Optional[Callable[[Dict[str, Any], Dict[str, Any]], bool]] = None
_KNOWN: List[Dict[str, Any]] = []
ITEM_TIMEOUT_S = int(os.environ.get("VERIF_ITEM_TIMEOUT_S", "180"))


class _ItemTimeout(BaseException):
    """Raised by the alarm handler; BaseException so that no `except Exception` inside a worker swallows it."""


def _on_alarm(signum: int, frame: Any) -> None:  # pylint: disable=unused-argument
    raise _ItemTimeout()
_PROP: Optional[str] = None


def _init_worker(worker_path: Tuple[str, str], scratch: str) -> None:
    global _WORKER, _ATTRIBUTE, _KNOWN, _PROP  # pylint: disable=global-statement
    os.environ["TEALER_ROOT_OUTPUT_DIR"] = os.path.join(scratch, f"out-{os.getpid()}")
    mod = __import__(worker_path[0], fromlist=[worker_path[1]])
    _WORKER = getattr(mod, worker_path[1])
    _ATTRIBUTE = getattr(mod, "attribute", None)
    prop = getattr(mod, "PROP", None)
    _PROP = prop
    _KNOWN = [k for k in load_known_findings() if k.get("property") == prop and k.get("status") == "known"]
    init = getattr(mod, "worker_init", None)
    if init is not None:
        init()


def _run_chunk(chunk: List[Any]) -> Result:
    res = Result()
    assert _WORKER is not None
    for item in chunk:
        n0 = len(res.violations)
        try:
            # no item of any space needs more than a few seconds; an analysis that is still running after
            # ITEM_TIMEOUT_S does not terminate (e.g. a fixpoint that no longer converges): reported, not waited for
            signal.signal(signal.SIGALRM, _on_alarm)
            signal.alarm(ITEM_TIMEOUT_S)
            try:
                _WORKER(item, res)
            finally:
                signal.alarm(0)
            if len(res.violations) > n0:
                # one violation per (kind, place) and item
                new, seen_keys = [], set()
                for v in res.violations[n0:]:
                    d = v.get("detail", {})
                    key = (v["kind"], d.get("block"), d.get("field"), d.get("detector"), d.get("line"))
                    if key not in seen_keys:
                        seen_keys.add(key)
                        new.append(v)
                del res.violations[n0:]
                res.violations.extend(new)
            if _ATTRIBUTE is not None and _KNOWN and len(res.violations) > n0:
                # attribute to known findings right here, so that known cases can never crowd
                # a different violation out of the (bounded) list that is sent to the parent
                new = res.violations[n0:]
                del res.violations[n0:]
                for v in new:
                    hit = None
                    for k in _KNOWN:
                        if v["kind"] in k.get("kinds", [k.get("kind")]) and _ATTRIBUTE(k, v):
                            hit = k
                            break
                    if hit is not None:
                        res.count("known:" + hit["id"])
                    else:
                        res.violations.append(v)
        except _ItemTimeout:
            res.violation((_PROP or "C00") + ".analysis-does-not-terminate", item, seconds=ITEM_TIMEOUT_S)
        except Exception as exc:  # pylint: disable=broad-except
            # an exception raised inside tealer's own code (innermost frame under .../tealer/) on a valid input of the
            # space means the analysed result the property speaks about does not exist: a violation, not a harness error
            tb = traceback.extract_tb(exc.__traceback__)
            inner = tb[-1].filename if tb else ""
            if "/tealer/" in inner and "/verif/" not in inner and _PROP:
                res.violation(_PROP + ".analysis-crash", item, error=repr(exc)[:300], where=f"{inner}:{tb[-1].lineno}")
            else:
                res.errors.append(
                    "harness error on item %r\n%s" % (item if len(repr(item)) < 2000 else "...", traceback.format_exc())
                )
        res.count("items")
    return res


def scratch_dir() -> str:
    os.makedirs(WORK_DIR, exist_ok=True)
    return tempfile.mkdtemp(prefix="run-", dir=WORK_DIR)


def execute(
    worker_mod: str,
    worker_fn: str,
    items: Iterable[Any],
    chunk: int = 50,
    procs: Optional[int] = None,
    seed: int = 0,
) -> Result:
    """Run worker over items on a process pool; merge order-independently."""
    procs = procs or NPROC
    scratch = scratch_dir()
    total = Result()
    try:
        chunks = chunked(items, chunk)
        if procs <= 1:
            _init_worker((worker_mod, worker_fn), scratch)
            for c in chunks:
                total.merge(_run_chunk(c))
        else:
            ctx = mp.get_context("fork")
            with ctx.Pool(procs, initializer=_init_worker, initargs=((worker_mod, worker_fn), scratch)) as pool:
                for r in pool.imap_unordered(_run_chunk, chunks):
                    total.merge(r)
                    if os.environ.get("VERIF_STOP_AT_FIRST_VIOLATION") and len(total.violations) >= 20:
                        # seed evaluation only (tools/eval_seed.py): the verdict is known, skip the rest of the space
                        total.count("stopped_early_for_seed_evaluation")
                        pool.terminate()
                        break
    finally:
        shutil.rmtree(scratch, ignore_errors=True)
    total.violations.sort(key=lambda v: json.dumps(v, sort_keys=True, default=str))
    return total


# --------------------------------------------------------------------------------------------
# findings, evidence, exit


def load_known_findings() -> List[Dict[str, Any]]:
    path = os.path.join(ROOT, "known_findings.json")
    if not os.path.exists(path):
        return []
    with open(path, encoding="utf-8") as f:
        return json.load(f)["findings"]


def write_replay(prop: str, v: Dict[str, Any]) -> str:
    d = os.path.join(REPLAY_DIR, prop)
    os.makedirs(d, exist_ok=True)
    blob = json.dumps(v, sort_keys=True, default=str, indent=1)
    name = hashlib.sha1(blob.encode()).hexdigest()[:16] + ".json"
    path = os.path.join(d, name)
    with open(path, "w", encoding="utf-8") as f:
        f.write(blob)
    return path


def finish(  # pylint: disable=too-many-arguments,too-many-locals,too-many-branches
    prop: str,
    tier: str,
    seed: int,
    level: str,
    total: Result,
    t0: float,
    coverage: Dict[str, Any],
    assumptions: List[str],
    attribute: Optional[Callable[[Dict[str, Any], Dict[str, Any]], bool]] = None,
) -> int:
    """Attribute violations to known findings, write evidence, print interface lines.
    Returns the process exit code."""
    known = [k for k in load_known_findings() if k.get("property") == prop and k.get("status") == "known"]
    matched: Dict[str, int] = {}
    unattributed: List[Dict[str, Any]] = []
    for v in total.violations:
        hit = None
        if attribute is not None:
            for k in known:
                if v["kind"] in k.get("kinds", [k.get("kind")]) and attribute(k, v):
                    hit = k
                    break
        if hit is not None:
            matched[hit["id"]] = matched.get(hit["id"], 0) + 1
        else:
            unattributed.append(v)
    for k in known:
        n_worker = total.counters.get("known:" + k["id"], 0)
        if n_worker:
            matched[k["id"]] = matched.get(k["id"], 0) + n_worker
    for k in known:
        if k["id"] in matched:
            print(f"KNOWN-FINDING: property={prop} {k['id']}: {k['what']} ({matched[k['id']]} cases attributed)")
    exit_code = 0
    shown = set()
    for v in unattributed:
        if v["kind"] in shown:
            # one replay per kind is printed; all are counted
            continue
        shown.add(v["kind"])
        v2 = dict(v)
        v2["property"] = prop
        v2["tier"] = tier
        path = write_replay(prop, v2)
        print(f"VIOLATION property={prop} replay={path}")
        print(f"  kind={v['kind']} detail={json.dumps(v['detail'], default=str)[:600]}")
        exit_code = 1
    if total.errors:
        print(f"HARNESS-ERROR property={prop}: {len(total.errors)} worker errors; first:\n{total.errors[0]}")
        exit_code = exit_code or 2
    cov = dict(coverage)
    cov.setdefault("evaluations", total.counters.get("items", 0))
    cov.setdefault("distinct_nontrivial", len(total.nontrivial))
    cov.setdefault("distinct_outcomes", len(total.outcomes))
    cov.setdefault("samples", total.samples or ["(no sample recorded)"])
    cov["counters"] = dict(sorted(total.counters.items()))
    cov["known_findings_matched"] = matched
    ev = {
        "property_id": prop,
        "tier": tier,
        "seed": seed,
        "level": level,
        "coverage": cov,
        "assumptions": assumptions,
        "wall_s": round(time.time() - t0, 2),
        "violations": len(unattributed),
    }
    os.makedirs(EVIDENCE_DIR, exist_ok=True)
    path = os.path.join(EVIDENCE_DIR, f"{prop}.json")
    with open(path, "w", encoding="utf-8") as f:
        json.dump(ev, f, indent=1, default=str)
    ok, msg = validate_evidence(path)
    if not ok:
        print(f"HARNESS-ERROR property={prop}: evidence does not validate: {msg}")
        exit_code = exit_code or 2
    print(
        f"[{prop}] tier={tier} seed={seed} items={total.counters.get('items', 0)} "
        f"violations={len(unattributed)} known={sum(matched.values())} wall={ev['wall_s']}s exit={exit_code}"
    )
    return exit_code


def validate_evidence(path: str) -> Tuple[bool, str]:
    schema = "/root/.vp/EVIDENCE.schema.json"
    if not os.path.exists(schema):
        schema = os.path.join(ROOT, "schemas", "EVIDENCE.schema.json")
    if not os.path.exists(schema):
        return True, "schema not found; skipped"
    vt = shutil.which("python3-vt")
    if vt is None:
        return True, "python3-vt not found; skipped"
    code = (
        "import json,sys,jsonschema;"
        "jsonschema.validate(json.load(open(sys.argv[1])), json.load(open(sys.argv[2])))"
    )
    pr = subprocess.run([vt, "-c", code, path, schema], capture_output=True, text=True, check=False)
    if pr.returncode != 0:
        return False, pr.stderr[-800:]
    return True, "ok"


def tier_and_seed(argv: List[str]) -> Tuple[str, int]:
    tier = os.environ.get("VERIF_TIER", "quick")
    if "--tier" in argv:
        tier = argv[argv.index("--tier") + 1]
    seed = int(os.environ.get("VERIF_SEED", "0") or 0)
    return tier, seed


def work_list(items_fn: Callable[[str], Any], tier: str, seed: int) -> Tuple[Any, Optional[int]]:
    """quick: a list rotated by VERIF_SEED; thorough: the generator itself (spaces of several
    million programs are streamed to the workers instead of being held in memory)."""
    it = items_fn(tier)
    if tier == "quick":
        lst = rotate(list(it), seed)
        return lst, len(lst)
    return it, None


def rotate(items: List[Any], seed: int) -> List[Any]:
    """VERIF_SEED only rotates the order in which work is handed out."""
    if not items:
        return items
    k = seed % len(items)
    return items[k:] + items[:k]
