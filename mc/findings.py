"""Attribution of violations to known findings (known_findings.json).

Attribution is differential and mechanical: a known finding names a *repair* - a
meaning-preserving rewrite of the program that avoids the construct tealer mishandles (e.g.
writing a mirrored comparison with the field first).  A violation is attributed to the
finding iff (1) the repair changes the program, (2) the repaired program has exactly the same
accepting executions (checked with E1), and (3) re-running the same check on the repaired
program no longer yields a violation of the same kind at the same place.  Anything else -
including a different defect on the same program - stays a VIOLATION.
"""
import contextlib
import re
from typing import FrozenSet, Any, Callable, Dict, List, Optional, Tuple

from mc.asm import tokenize
from mc.machine import explore

MIRROR = {"<": ">", "<=": ">=", ">": "<", ">=": "<=", "==": "==", "!=": "!="}
INT_PUSH = re.compile(r"^(int|pushint) \S+$")


def _unmirror(src: str, is_field: Callable[[str], bool], ops: Tuple[str, ...]) -> str:
    """`int c; <field read>; op`  ->  `<field read>; int c; mirrored(op)` (single-line reads)."""
    lines = src.split("\n")
    out = list(lines)
    i = 0
    while i + 2 < len(out):
        a, b, c = out[i].strip(), out[i + 1].strip(), out[i + 2].strip()
        if INT_PUSH.match(a) and is_field(b) and c in ops:
            out[i], out[i + 1], out[i + 2] = b, a, MIRROR[c]
            i += 3
        else:
            i += 1
    return "\n".join(out)


def unmirror_int_fields(src: str) -> str:
    return _unmirror(src, lambda l: l in ("global GroupSize", "txn GroupIndex"), ("<", "<=", ">", ">="))


def return_after_final_callsub(src: str) -> str:
    """A program whose last instruction is a callsub continues, after the callee's retsub, at
    the end of the program; an explicit `return` there is equivalent whenever the stack holds
    one value (equivalence is re-checked with E1 before the repair is trusted)."""
    lines = [l for l in tokenize(src)]
    if lines and lines[-1].op == "callsub":
        return src.rstrip("\n") + "\nreturn\n"
    return src


def label_after_final_branch(src: str) -> str:
    """A conditional branch as last instruction falls through to the end of the program; a
    (no-op) label after it makes that fall-through an ordinary block."""
    lines = [l for l in tokenize(src)]
    if lines and lines[-1].op in ("bz", "bnz", "switch", "match"):
        return src.rstrip("\n") + "\nverif_end_of_program:\n"
    return src


REPAIRS: Dict[str, Callable[[str], str]] = {
    "unmirror-int-fields": unmirror_int_fields,
    "label-after-final-branch": label_after_final_branch,
    "return-after-final-callsub": return_after_final_callsub,
}


def same_behaviour(src1: str, src2: str) -> bool:
    """Same accepting executions: compare (status, final valuation) sets of E1."""

    def summary(src: str) -> Any:
        runs, _ = explore(src)
        return sorted((r.status, repr(sorted(r.env.items(), key=repr))) for r in runs)

    return summary(src1) == summary(src2)


def place_of(v: Dict[str, Any]) -> Any:
    d = v.get("detail", {})
    return (d.get("block"), d.get("field"), d.get("detector"), d.get("txn"), d.get("position"), d.get("line"))


def by_repair(
    worker: Callable[[Any, Any], None],
    get_src: Callable[[Any], str],
    with_src: Callable[[Any, str], Any],
    patches: Tuple[str, ...] = (),
) -> Callable[[Dict[str, Any], Dict[str, Any]], bool]:
    """`patches`: names of in-process repairs of OTHER recorded defects.  A program can hit two
    recorded defects at once (e.g. a final bz and an OnCompletion test); then the source repair
    alone leaves the violation in place.  It is attributed iff it disappears once the source
    repair and those patches are active together - a third defect still persists and is reported."""
    from mc.runner import Result  # pylint: disable=import-outside-toplevel

    cache: Dict[Tuple[str, str], bool] = {}
    rerun_cache: Dict[str, Any] = {}

    def attribute(entry: Dict[str, Any], v: Dict[str, Any]) -> bool:
        repair = REPAIRS.get(entry.get("repair", ""))
        if repair is None:
            return False
        item = v["item"]
        if isinstance(item, list):
            item = tuple(item)
        src = get_src(item)
        fixed = repair(src)
        if fixed == src:
            return False
        key = (entry["id"], src + "\0" + v["kind"] + repr(place_of(v)))
        if key in cache:
            return cache[key]
        rkey = entry["id"] + "\0" + repr(item)
        if rkey not in rerun_cache:
            if len(rerun_cache) > 64:
                rerun_cache.clear()
            if same_behaviour(src, fixed):
                res = Result()
                worker(with_src(item, fixed), res)
                left0 = None if res.errors else [(x["kind"], place_of(x)) for x in res.violations]
                if left0 and patches:
                    with contextlib.ExitStack() as stack:
                        for name in patches:
                            stack.enter_context(PATCHES[name]())
                        res = Result()
                        worker(with_src(item, fixed), res)
                    left0 = None if res.errors else [(x["kind"], place_of(x)) for x in res.violations]
                rerun_cache[rkey] = left0
            else:
                rerun_cache[rkey] = None
        left = rerun_cache[rkey]
        ok = left is not None and (v["kind"], place_of(v)) not in left
        cache[key] = ok
        if len(cache) > 4096:
            cache.clear()
        return ok

    return attribute


# --------------------------------------------------------------------------------------------
# attribution by patch: the finding names a small in-process repair of tealer (kept in /verif,
# never written to /repo); a violation is attributed iff it disappears when the same case is
# re-run with the repair active.  A different defect on the same program persists and is
# reported.


def _patch_appid_partition() -> Any:
    """Correct partition for ApplicationID tests: a zero ApplicationID is also what every
    non-application transaction carries."""
    import contextlib  # pylint: disable=import-outside-toplevel
    from tealer.analyses.dataflow.transaction_context import txn_types as tt  # pylint: disable=import-outside-toplevel
    from tealer.teal.instructions import instructions as ins_mod  # pylint: disable=import-outside-toplevel
    from tealer.teal.instructions.transaction_field import ApplicationID  # pylint: disable=import-outside-toplevel
    from tealer.utils.teal_enums import TealerTransactionType as T  # pylint: disable=import-outside-toplevel

    non_appl = {T.Pay, T.KeyReg, T.Acfg, T.Axfer}

    def reads_appid(sv: Any) -> bool:
        i = getattr(sv, "instruction", None)
        return isinstance(i, (ins_mod.Txn, ins_mod.Gtxn, ins_mod.Gtxns)) and isinstance(i.field, ApplicationID)

    def involves(sv: Any) -> bool:
        if reads_appid(sv):
            return True
        return any(reads_appid(a) for a in getattr(sv, "args", []))

    @contextlib.contextmanager
    def cm() -> Any:
        orig = tt.TxnType._get_asserted_transaction_types  # pylint: disable=protected-access

        def patched(self: Any, key: str, sv: Any) -> Any:
            t, f = orig(self, key, sv)
            if involves(sv):
                t, f = set(t), set(f)
                if T.ApplCreation in t and T.ApplCreation not in f:
                    t |= non_appl
                elif T.ApplCreation in f and T.ApplCreation not in t:
                    f |= non_appl
            return t, f

        tt.TxnType._get_asserted_transaction_types = patched  # pylint: disable=protected-access
        try:
            yield
        finally:
            tt.TxnType._get_asserted_transaction_types = orig  # pylint: disable=protected-access

    return cm()


def _patch_kind_partitions() -> Any:
    """Correct partitions for ApplicationID and OnCompletion tests: a zero ApplicationID and a
    zero (NoOp) OnCompletion are also what every non-application transaction carries."""
    import contextlib  # pylint: disable=import-outside-toplevel
    from tealer.analyses.dataflow.transaction_context import txn_types as tt  # pylint: disable=import-outside-toplevel
    from tealer.teal.instructions import instructions as ins_mod  # pylint: disable=import-outside-toplevel
    from tealer.teal.instructions.transaction_field import ApplicationID, OnCompletion  # pylint: disable=import-outside-toplevel
    from tealer.utils.teal_enums import TealerTransactionType as T  # pylint: disable=import-outside-toplevel

    non_appl = {T.Pay, T.KeyReg, T.Acfg, T.Axfer}

    def reads(sv: Any, fld: Any) -> bool:
        i = getattr(sv, "instruction", None)
        return isinstance(i, (ins_mod.Txn, ins_mod.Gtxn, ins_mod.Gtxns)) and isinstance(i.field, fld)

    def involves(sv: Any, fld: Any) -> bool:
        return reads(sv, fld) or any(reads(a, fld) for a in getattr(sv, "args", []))

    @contextlib.contextmanager
    def cm() -> Any:
        orig = tt.TxnType._get_asserted_transaction_types  # pylint: disable=protected-access

        def patched(self: Any, key: str, sv: Any) -> Any:
            t, f = orig(self, key, sv)
            if involves(sv, ApplicationID):
                t, f = set(t), set(f)
                if T.ApplCreation in t and T.ApplCreation not in f:
                    t |= non_appl
                elif T.ApplCreation in f and T.ApplCreation not in t:
                    f |= non_appl
            elif involves(sv, OnCompletion) and len(t) != 12 and len(f) != 12:
                t, f = set(t), set(f)
                # the side on which OnCompletion may be NoOp (0) also admits non-application kinds
                if T.ApplNoOp in t:
                    t |= non_appl
                if T.ApplNoOp in f:
                    f |= non_appl
            return t, f

        tt.TxnType._get_asserted_transaction_types = patched  # pylint: disable=protected-access
        try:
            yield
        finally:
            tt.TxnType._get_asserted_transaction_types = orig  # pylint: disable=protected-access

    return cm()


def _relax_oracle(name: str) -> Callable[[], Any]:
    def mk() -> Any:
        import contextlib  # pylint: disable=import-outside-toplevel
        from mc import abstract  # pylint: disable=import-outside-toplevel

        @contextlib.contextmanager
        def cm() -> Any:
            abstract.RELAX.add(name)
            try:
                yield
            finally:
                abstract.RELAX.discard(name)

        return cm()

    return mk


def _patch_frame_bury() -> Any:
    import contextlib  # pylint: disable=import-outside-toplevel
    from tealer.teal.instructions import instructions as ins_mod  # pylint: disable=import-outside-toplevel

    @contextlib.contextmanager
    def cm() -> Any:
        orig = ins_mod.FrameBury.stack_push_size
        ins_mod.FrameBury.stack_push_size = property(lambda self: 0)  # type: ignore
        try:
            yield
        finally:
            ins_mod.FrameBury.stack_push_size = orig  # type: ignore

    return cm()


PATCHES: Dict[str, Callable[[], Any]] = {
    "frame-bury-pushes-nothing": _patch_frame_bury,
    "oracle:fee-upper-bounds-only": _relax_oracle("fee-upper-bounds-only"),
    "appid-partition": _patch_appid_partition,
    "kind-partitions": _patch_kind_partitions,
}


def by_patch(worker: Callable[[Any, Any], None]) -> Callable[[Dict[str, Any], Dict[str, Any]], bool]:
    from mc.runner import Result  # pylint: disable=import-outside-toplevel

    rerun_cache: Dict[str, Any] = {}

    def attribute(entry: Dict[str, Any], v: Dict[str, Any]) -> bool:
        mk = PATCHES.get(entry.get("patch", ""))
        if mk is None:
            return False
        item = v["item"]
        if isinstance(item, list):
            item = tuple(item)
        rkey = entry["id"] + "\0" + repr(item)
        if rkey not in rerun_cache:
            if len(rerun_cache) > 64:
                rerun_cache.clear()
            res = Result()
            with mk():
                worker(item, res)
            rerun_cache[rkey] = None if res.errors else [(x["kind"], place_of(x)) for x in res.violations]
        left = rerun_cache[rkey]
        return left is not None and (v["kind"], place_of(v)) not in left

    return attribute


def loop_free_path_with_abs_read_exists(src: str) -> bool:
    """Is there a path entry -> terminating block, with matched calls/returns and no block visited twice within one
    subroutine activation (the discipline of tealer's path enumeration, which C02 prescribes), that passes through a
    block reading another transaction by absolute index?"""
    from mc import abstract  # pylint: disable=import-outside-toplevel
    from mc.asm import tokenize  # pylint: disable=import-outside-toplevel
    from mc.refcfg import RefGraph  # pylint: disable=import-outside-toplevel

    g = RefGraph(tokenize(src))
    if not g.lines:
        return False
    sm = abstract.summarize(g)
    found = [False]

    def dfs(b: int, stack: Tuple[Any, ...], frames: Tuple[FrozenSet[int], ...], seen_abs: bool, depth: int) -> None:
        if found[0] or depth > 200 or b in frames[-1]:
            return
        seen_abs = seen_abs or sm[b].abs_read
        frames = frames[:-1] + (frames[-1] | {b},)
        if g.is_callsub_block(b):
            if len(stack) < 8:
                dfs(g.callee_entry(b), stack + (g.return_point(b),), frames + (frozenset(),), seen_abs, depth + 1)
            return
        if g.is_retsub_block(b):
            if stack and stack[-1] is not None:
                dfs(stack[-1], stack[:-1], frames[:-1], seen_abs, depth + 1)
            return
        if g.is_leaf(b):
            if seen_abs:
                found[0] = True
            return
        for t in g.bsucc[b]:
            dfs(t, stack, frames, seen_abs, depth + 1)

    dfs(0, (), (frozenset(),), False, 0)
    return found[0]


def by_predicate() -> Callable[[Dict[str, Any], Dict[str, Any]], bool]:
    """Attribution by a predicate on the program (reference graph only), for findings that name one:
    `abs-read-only-on-looping-paths`: a missed group-size report is attributed iff NO loop-free path (no block twice
    per activation) from the entry to a terminating block passes through an absolute-index read - i.e. every
    execution that performs such a read revisits a block, which tealer's path enumeration never does.  If a loop-free
    path with the read exists the miss has another cause and is reported."""

    def attribute(entry: Dict[str, Any], v: Dict[str, Any]) -> bool:
        if entry.get("predicate") != "abs-read-only-on-looping-paths":
            return False
        if v.get("detail", {}).get("detector") != "group-size-check":
            return False
        item = v["item"]
        src = item[2] if isinstance(item, (list, tuple)) and len(item) >= 3 else None
        if not isinstance(src, str):
            return False
        return not loop_free_path_with_abs_read_exists(src)

    return attribute


def any_of(*fns: Callable[[Dict[str, Any], Dict[str, Any]], bool]) -> Callable[[Dict[str, Any], Dict[str, Any]], bool]:
    def attribute(entry: Dict[str, Any], v: Dict[str, Any]) -> bool:
        return any(f(entry, v) for f in fns)

    return attribute
