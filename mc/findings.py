"""Attribution of violations to known findings (known_findings.json).

Attribution is differential and mechanical: a known finding names a *repair* - a
meaning-preserving rewrite of the program that avoids the construct tealer mishandles (e.g.
writing a mirrored comparison with the field first).  A violation is attributed to the
finding iff (1) the repair changes the program, (2) the repaired program has exactly the same
accepting executions (checked with E1), and (3) re-running the same check on the repaired
program no longer yields a violation of the same kind at the same place.  Anything else -
including a different defect on the same program - stays a VIOLATION.
"""
import re
from typing import Any, Callable, Dict, List, Optional, Tuple

from mc.asm import tokenize
from mc.machine import explore

MIRROR = {"<": ">", "<=": ">=", ">": "<", ">=": "<=", "==": "==", "!=": "!="}
INT_PUSH = re.compile(r"^(int|pushint) \S+$")


def _unmirror(src: str, is_field: Callable[[str], bool], ops: Tuple[str, ...]) -> str:
    """`int c; <field read>; op`  ->  `<field read>; int c; mirrored(op)` (single-line reads)."""
    lines = src.split("\n")
    out = list(lines)
    i = 0
    while i + 2 < len(out):
        a, b, c = out[i].strip(), out[i + 1].strip(), out[i + 2].strip()
        if INT_PUSH.match(a) and is_field(b) and c in ops:
            out[i], out[i + 1], out[i + 2] = b, a, MIRROR[c]
            i += 3
        else:
            i += 1
    return "\n".join(out)


def unmirror_int_fields(src: str) -> str:
    return _unmirror(src, lambda l: l in ("global GroupSize", "txn GroupIndex"), ("<", "<=", ">", ">="))


REPAIRS: Dict[str, Callable[[str], str]] = {
    "unmirror-int-fields": unmirror_int_fields,
}


def same_behaviour(src1: str, src2: str) -> bool:
    """Same accepting executions: compare (status, final valuation) sets of E1."""

    def summary(src: str) -> Any:
        runs, _ = explore(src)
        return sorted((r.status, repr(sorted(r.env.items(), key=repr))) for r in runs)

    return summary(src1) == summary(src2)


def place_of(v: Dict[str, Any]) -> Any:
    d = v.get("detail", {})
    return (d.get("block"), d.get("field"), d.get("detector"))


def by_repair(
    worker: Callable[[Any, Any], None],
    get_src: Callable[[Any], str],
    with_src: Callable[[Any, str], Any],
) -> Callable[[Dict[str, Any], Dict[str, Any]], bool]:
    from mc.runner import Result  # pylint: disable=import-outside-toplevel

    cache: Dict[Tuple[str, str], bool] = {}
    rerun_cache: Dict[str, Any] = {}

    def attribute(entry: Dict[str, Any], v: Dict[str, Any]) -> bool:
        repair = REPAIRS.get(entry.get("repair", ""))
        if repair is None:
            return False
        item = v["item"]
        if isinstance(item, list):
            item = tuple(item)
        src = get_src(item)
        fixed = repair(src)
        if fixed == src:
            return False
        key = (entry["id"], src + "\0" + v["kind"] + repr(place_of(v)))
        if key in cache:
            return cache[key]
        rkey = entry["id"] + "\0" + repr(item)
        if rkey not in rerun_cache:
            if len(rerun_cache) > 64:
                rerun_cache.clear()
            if same_behaviour(src, fixed):
                res = Result()
                worker(with_src(item, fixed), res)
                rerun_cache[rkey] = None if res.errors else [(x["kind"], place_of(x)) for x in res.violations]
            else:
                rerun_cache[rkey] = None
        left = rerun_cache[rkey]
        ok = left is not None and (v["kind"], place_of(v)) not in left
        cache[key] = ok
        if len(cache) > 4096:
            cache.clear()
        return ok

    return attribute
