"""Reference instruction graph, blocks and subroutines, computed from asm.Line lists.

Independent of tealer.  Instruction indices are positions in the asm.tokenize() list;
lines are identified across the two worlds by their 1-based source line number.
"""
from typing import Dict, List, Optional, Set, Tuple

from mc.asm import Line

BRANCH1 = ("b",)
BRANCH2 = ("bz", "bnz")
MULTI = ("switch", "match")
TERMINATORS = ("err", "return", "retsub")


class AsmError(Exception):
    pass


class RefGraph:  # pylint: disable=too-many-instance-attributes
    def __init__(self, lines: List[Line]):
        self.lines = lines
        n = len(lines)
        self.label_at: Dict[str, int] = {}
        for i, l in enumerate(lines):
            if l.op == "label":
                if l.args[0] in self.label_at:
                    raise AsmError(f"duplicate label {l.args[0]}")
                self.label_at[l.args[0]] = i
        # instruction-level successors (callsub continues at the next line)
        self.succ: List[List[int]] = []
        self.jump_targets: Set[int] = set()
        self.callsub_targets: Dict[str, List[int]] = {}
        for i, l in enumerate(lines):
            nxt = [i + 1] if i + 1 < n else []
            if l.op in BRANCH1:
                s = [self._lab(l.args[0])]
            elif l.op in BRANCH2:
                s = nxt + [self._lab(l.args[0])]
            elif l.op in MULTI:
                s = nxt + [self._lab(a) for a in l.args]
            elif l.op in TERMINATORS:
                s = []
            else:
                s = nxt
            if l.op == "callsub":
                self._lab(l.args[0])
                self.callsub_targets.setdefault(l.args[0], []).append(i)
            if l.op in BRANCH1 + BRANCH2 + MULTI:
                for a in l.args:
                    self.jump_targets.add(self.label_at[a])
            self.succ.append(s)
        # leaders: my own rule (first line, label, line after branch/callsub/terminator)
        leaders = {0} if n else set()
        for i, l in enumerate(lines):
            if l.op == "label":
                leaders.add(i)
            if l.op in BRANCH1 + BRANCH2 + MULTI + TERMINATORS + ("callsub",) and i + 1 < n:
                leaders.add(i + 1)
        self.leaders = sorted(leaders)
        self.block_of: List[int] = [0] * n  # leader index of the block containing i
        self.blocks: Dict[int, List[int]] = {}
        cur = 0
        for i in range(n):
            if i in leaders:
                cur = i
                self.blocks[cur] = []
            self.block_of[i] = cur
            self.blocks[cur].append(i)
        # block-level successors (deduplicated, order: fall-through first)
        self.bsucc: Dict[int, List[int]] = {}
        for b, ins in self.blocks.items():
            out: List[int] = []
            for t in self.succ[ins[-1]]:
                if t not in out:
                    out.append(t)
            self.bsucc[b] = out
        # subroutines: every callsub target, reachable or not
        self.sub_names = list(self.callsub_targets.keys())
        self.sub_entry: Dict[str, int] = {s: self.label_at[s] for s in self.sub_names}
        self.sub_blocks: Dict[str, Set[int]] = {
            s: self._reach_blocks(self.sub_entry[s]) for s in self.sub_names
        }
        self.main_blocks: Set[int] = self._reach_blocks(0) if n else set()
        self.retained_blocks: Set[int] = set(self.main_blocks)
        for s in self.sub_names:
            self.retained_blocks |= self.sub_blocks[s]
        self.retained_ins: List[int] = [i for i in range(n) if self.block_of[i] in self.retained_blocks]

    def _lab(self, name: str) -> int:
        if name not in self.label_at:
            raise AsmError(f"undefined label {name}")
        return self.label_at[name]

    def _reach_blocks(self, start_ins: int) -> Set[int]:
        start = self.block_of[start_ins]
        seen = {start}
        stack = [start]
        while stack:
            b = stack.pop()
            for t in self.bsucc[b]:
                if t not in seen:
                    seen.add(t)
                    stack.append(t)
        return seen

    # -- helpers -------------------------------------------------------------------
    def last(self, b: int) -> Line:
        return self.lines[self.blocks[b][-1]]

    def is_callsub_block(self, b: int) -> bool:
        return self.last(b).op == "callsub"

    def is_retsub_block(self, b: int) -> bool:
        return self.last(b).op == "retsub"

    def return_point(self, b: int) -> Optional[int]:
        """Block where execution resumes after the callsub ending block b (None if last)."""
        i = self.blocks[b][-1]
        return i + 1 if i + 1 < len(self.lines) else None

    def callee_entry(self, b: int) -> int:
        return self.label_at[self.last(b).args[0]]

    def owners(self, b: int) -> List[str]:
        """Names of the graphs (``__main__`` / subroutines) that contain block b."""
        out = ["__main__"] if b in self.main_blocks else []
        out += [s for s in self.sub_names if b in self.sub_blocks[s]]
        return out

    def entered_only_through_callsub(self) -> bool:
        """True iff no subroutine block is also reachable from main or another subroutine
        without a call (C05/C17 filter: 'bodies entered only through callsub')."""
        for b in self.retained_blocks:
            if len(self.owners(b)) > 1:
                return False
        return True

    def lineno(self, i: int) -> int:
        return self.lines[i].lineno

    def global_succ(self, b: int, callstack_top_return: Optional[int] = None) -> List[int]:
        if self.is_callsub_block(b):
            return [self.callee_entry(b)]
        if self.is_retsub_block(b):
            return [] if callstack_top_return is None else [callstack_top_return]
        return self.bsucc[b]

    def is_leaf(self, b: int) -> bool:
        return not self.bsucc[b] and not self.is_retsub_block(b) and not self.is_callsub_block(b)

    def call_sites(self, sub: str) -> List[int]:
        """Retained blocks ending in ``callsub sub``."""
        return sorted(
            self.block_of[i]
            for i in self.callsub_targets.get(sub, [])
            if self.block_of[i] in self.retained_blocks
        )


def build(lines: List[Line]) -> RefGraph:
    return RefGraph(lines)


def walk_key(g: RefGraph, pcs: List[int]) -> Tuple[int, ...]:
    """Sequence of block leaders visited by a pc trace (consecutive duplicates merged only
    when execution stays inside the block)."""
    out: List[int] = []
    prev = None
    for pc in pcs:
        b = g.block_of[pc]
        if prev is None or pc == b or g.block_of[prev] != b or pc != prev + 1:
            out.append(b)
        prev = pc
    return tuple(out)
