"""Independent tokenizer for the modelled TEAL fragment.

Deliberately NOT tealer's parser: splits on whitespace, strips ``//`` comments (outside
double quotes), recognises ``label:`` lines.  Every non-blank, non-comment line is one
*instruction line* (``#pragma`` and labels included, as in tealer, where both occupy a line
and belong to a block).
"""
from typing import List, NamedTuple, Optional, Tuple

TYPE_ENUM = {"unknown": 0, "pay": 1, "keyreg": 2, "acfg": 3, "axfer": 4, "afrz": 5, "appl": 6}
ON_COMPLETION = {
    "NoOp": 0,
    "OptIn": 1,
    "CloseOut": 2,
    "ClearState": 3,
    "UpdateApplication": 4,
    "DeleteApplication": 5,
}
NAMED = dict(TYPE_ENUM)
NAMED.update(ON_COMPLETION)

ZERO_ADDR = "AAAAAAAAAAAAAAAAAAAAAAAAAAAAAAAAAAAAAAAAAAAAAAAAAAAAY5HFKQ"


class Line(NamedTuple):
    lineno: int  # 1-based source line
    op: str  # opcode, or "label" / "#pragma"
    args: Tuple[str, ...]
    text: str  # normalised text "op a b"

    @property
    def label(self) -> Optional[str]:
        return self.args[0] if self.op == "label" else None


def strip_comment(raw: str) -> str:
    out = []
    in_q = False
    i = 0
    while i < len(raw):
        c = raw[i]
        if in_q:
            out.append(c)
            if c == "\\" and i + 1 < len(raw):
                out.append(raw[i + 1])
                i += 2
                continue
            if c == '"':
                in_q = False
        else:
            if c == '"':
                in_q = True
                out.append(c)
            elif c == "/" and raw[i + 1 : i + 2] == "/":
                break
            else:
                out.append(c)
        i += 1
    return "".join(out)


def split_tokens(s: str) -> List[str]:
    toks: List[str] = []
    cur = []
    in_q = False
    i = 0
    while i < len(s):
        c = s[i]
        if in_q:
            cur.append(c)
            if c == "\\" and i + 1 < len(s):
                cur.append(s[i + 1])
                i += 2
                continue
            if c == '"':
                in_q = False
        elif c == '"':
            in_q = True
            cur.append(c)
        elif c in " \t\r":
            if cur:
                toks.append("".join(cur))
                cur = []
        else:
            cur.append(c)
        i += 1
    if cur:
        toks.append("".join(cur))
    return toks


def parse_int(tok: str) -> Optional[int]:
    """uint64 literal per the assembler: decimal, 0x hex, leading-0 octal."""
    try:
        if tok.startswith(("0x", "0X")):
            return int(tok[2:], 16)
        if len(tok) > 1 and tok.startswith("0") and tok.isdigit():
            return int(tok, 8)
        if tok.isdigit():
            return int(tok, 10)
    except ValueError:
        return None
    return None


def int_value(tok: str) -> Optional[int]:
    v = parse_int(tok)
    if v is not None:
        return v
    return NAMED.get(tok)


def tokenize(src: str) -> List[Line]:
    out: List[Line] = []
    for n, raw in enumerate(src.splitlines(), start=1):
        body = strip_comment(raw).strip()
        if not body:
            continue
        toks = split_tokens(body)
        if toks[0] == "#pragma":
            out.append(Line(n, "#pragma", tuple(toks[1:]), " ".join(toks)))
        elif len(toks) == 1 and toks[0].endswith(":") and not toks[0].startswith('"'):
            out.append(Line(n, "label", (toks[0][:-1],), toks[0]))
        else:
            out.append(Line(n, toks[0], tuple(toks[1:]), " ".join(toks)))
    return out


def version_of(lines: List[Line]) -> int:
    if lines and lines[0].op == "#pragma" and len(lines[0].args) == 2:
        return int(lines[0].args[1])
    return 1
