"""Unit tests of the trusted base (reference AVM, tokenizer, reference graph)."""
import sys

from mc.machine import explore, ATTACKER, ZERO


def accepts(src, pred=lambda r: True):
    runs, _ = explore(src)
    return [r for r in runs if r.status == "accept" and pred(r)]


def main() -> int:
    fails = []

    def expect(name, cond):
        if not cond:
            fails.append(name)

    P = "#pragma version 8\n"
    expect("int1", len(accepts(P + "int 1\n")) == 1)
    expect("int0", len(accepts(P + "int 0\n")) == 0)
    expect("two values", len(accepts(P + "int 1\nint 1\n")) == 0)
    expect("return drops below", len(accepts(P + "int 0\nint 1\nreturn\n")) == 1)
    expect("err", len(accepts(P + "err\n")) == 0)
    expect("assert0", len(accepts(P + "int 0\nassert\nint 1\n")) == 0)
    expect("underflow", len(accepts(P + "pop\nint 1\n")) == 0)
    expect("bytes on top", len(accepts(P + "global ZeroAddress\n")) == 0)
    expect("type mismatch", len(accepts(P + "global ZeroAddress\nint 1\n==\n")) == 0)
    expect("lt on bytes", len(accepts(P + "global ZeroAddress\nglobal ZeroAddress\n<\n")) == 0)
    expect("overflow", len(accepts(P + "int 18446744073709551615\nint 1\n+\n")) == 0)
    expect("underflow-", len(accepts(P + "int 0\nint 1\n-\nint 1\n")) == 0)
    expect("retsub empty", len(accepts(P + "retsub\n")) == 0)
    expect("callsub/retsub", len(accepts(P + "callsub f\nint 1\nreturn\nf:\nretsub\n")) == 1)
    expect("callsub last", len(accepts(P + "b m\nf:\nint 1\nretsub\nm:\ncallsub f\n")) == 1)
    expect("bz taken", len(accepts(P + "int 0\nbz a\nerr\na:\nint 1\n")) == 1)
    expect("bnz not taken", len(accepts(P + "int 0\nbnz a\nint 1\nreturn\na:\nerr\n")) == 1)
    expect("infinite loop", len(accepts(P + "a:\nb a\n")) == 0)
    expect("intc", len(accepts(P + "intcblock 0 5\nintc_1\nint 5\n==\n")) == 1)
    expect("intc oob", len(accepts(P + "intcblock 0 5\nintc 2\n")) == 0)
    expect("select", len(accepts(P + "int 0\nint 1\nint 1\nselect\n")) == 1)
    expect("dig", len(accepts(P + "int 1\nint 0\ndig 1\nreturn\n")) == 1)
    expect("cover", len(accepts(P + "int 0\nint 0\nint 1\ncover 2\npop\npop\n")) == 1)
    expect("uncover", len(accepts(P + "int 1\nint 0\nint 0\nuncover 2\nreturn\n")) == 1)
    expect("swap", len(accepts(P + "int 1\nint 0\nswap\nreturn\n")) == 1)
    expect("store/load", len(accepts(P + "int 1\nstore 3\nload 3\n")) == 1)
    expect("load default", len(accepts(P + "load 3\n")) == 0)
    expect("switch", len(accepts(P + "int 1\nswitch a b\nerr\na:\nerr\nb:\nint 1\n")) == 1)
    expect("switch fall", len(accepts(P + "int 2\nswitch a b\nint 1\nreturn\na:\nerr\nb:\nerr\n")) == 1)
    expect("match", len(accepts(P + "int 5\nint 6\nint 6\nmatch a b\nerr\na:\nerr\nb:\nint 1\n")) == 1)
    # inputs
    rk = accepts(P + "txn RekeyTo\nglobal ZeroAddress\n==\n")
    expect("rekey zero only", len(rk) == 1 and rk[0].env[("m", "self", "RekeyTo")] == ZERO)
    rk = accepts(P + "txn RekeyTo\nglobal ZeroAddress\n!=\n")
    expect("rekey nonzero", any(r.env[("m", "self", "RekeyTo")] == ATTACKER for r in rk))
    fee = accepts(P + "txn Fee\nint 1000\n<=\n")
    expect("fee<=1000", max(r.env[("m", "self", "Fee")] for r in fee) == 1000)
    fee = accepts(P + "int 1000\ntxn Fee\n<\n")
    expect("1000<fee", min(r.env[("m", "self", "Fee")] for r in fee) > 1000)
    gs = accepts(P + "global GroupSize\nint 3\n<\n")
    expect("size<3", sorted(r.env["GroupSize"] for r in gs) == [1, 2])
    gi = accepts(P + "txn GroupIndex\nint 2\n==\nglobal GroupSize\nint 3\n<=\n&&\n")
    expect("idx2 size<=3", [(r.env["GroupIndex"], r.env["GroupSize"]) for r in gi] == [(2, 3)])
    g = accepts(P + "gtxn 2 Fee\nint 5\n==\n")
    expect("gtxn beyond group", min(r.env["GroupSize"] for r in g) == 3)
    oc = accepts(P + "txn OnCompletion\nint UpdateApplication\n==\n")
    expect("oc update implies appl", all(r.env[("m", "self", "TypeEnum")] == 6 for r in oc) and len(oc) == 1)
    ct = accepts(P + "txn CloseRemainderTo\nglobal ZeroAddress\n!=\n")
    expect("closeto nonzero implies pay", all(r.env[("m", "self", "TypeEnum")] == 1 for r in ct) and ct)
    st = accepts(P + "global CreatorAddress\ntxn Sender\n==\ntxn TypeEnum\nint pay\n==\n&&\n")
    expect("stateful governs appl only", len(st) == 0)
    al = accepts(P + "txn GroupIndex\nint 1\n==\nassert\ngtxn 1 RekeyTo\nglobal ZeroAddress\n==\n")
    expect("aliasing txn/gtxn", len(al) >= 1 and all(r.env[("m", 1, "RekeyTo")] == ZERO for r in al))
    rel = accepts(P + "txn GroupIndex\nint 1\n+\ngtxns Fee\nint 7\n==\n")
    expect("relative read", all(r.env["GroupIndex"] + 1 < r.env["GroupSize"] for r in rel) and rel)
    if fails:
        print("SELFTEST FAILED:", fails)
        return 1
    print("selftest ok (reference AVM)")
    return 0


if __name__ == "__main__":
    sys.exit(main())
