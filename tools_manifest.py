#!/venv/bin/python
"""Regenerates MANIFEST.json from the table below (kept in one place so it stays valid)."""
import json, os, sys
ROOT = os.path.dirname(os.path.abspath(__file__))
sys.path.insert(0, ROOT)
from manifest_table import CHECKS, NOT_APPLICABLE  # noqa

BASELINE = "cd /repo && /venv/bin/python -m pytest -ra -q -p no:cacheprovider --timeout=900 --continue-on-collection-errors"
m = {
    "version": 1,
    "setup_cmd": "cd /verif && ./setup.sh",
    "hooks": {
        "guard": "TEALER_VERIF",
        "enable": "no source hooks: checks import tealer from /repo's working tree (editable install in /venv) and wrap functions in their own process",
        "baseline_off_cmd": BASELINE,
        "source_commits": [],
        "add_only": True,
    },
    "engines": [
        {
            "name": "E1/O2 explicit-state explorers + bounded-exhaustive program enumerators",
            "path": "mc/",
            "serves_properties": [c["property_id"] for c in CHECKS],
            "kind_free_text": "hand-written Python explicit-state model checker: reference AVM explored over all inputs of a region quotient (mc/machine.py), abstract per-value reachability (mc/abstract.py), complete enumeration of bounded program spaces (mc/gen/*), every model transition/trace compared with the implementation in-process",
        }
    ],
    "checks": CHECKS,
    "not_applicable": NOT_APPLICABLE,
    "notes": "See DESIGN.md. known_findings.json lists genuine defects that are recorded rather than repaired; fixes are 'fix:' commits in /repo.",
}
with open(os.path.join(ROOT, "MANIFEST.json"), "w") as f:
    json.dump(m, f, indent=1)
print("MANIFEST.json written:", len(CHECKS), "checks,", len(NOT_APPLICABLE), "not applicable")
