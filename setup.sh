#!/bin/bash
# Offline setup: nothing to build (pure Python against /venv, which holds an editable install of /repo).
set -e
cd "$(dirname "$0")"
mkdir -p evidence replays .work
/venv/bin/python -c "import tealer, yaml; print('tealer importable from', tealer.__file__)"
/venv/bin/python -m mc.selftest
