"""Table of registered checks (source of MANIFEST.json; run tools_manifest.py after editing)."""

def chk(pid, level, text, note, technique, ref):
    return {
        "property_id": pid,
        "quick_cmd": f"./check {pid} --tier quick",
        "thorough_cmd": f"./check {pid} --tier thorough",
        "evidence_file": f"/verif/evidence/{pid}.json",
        "replay_cmd_template": f"./check {pid} --replay {{path}}",
        "engine": "E1/O2 explicit-state explorers + bounded-exhaustive program enumerators",
        "level_claimed": {"category": level, "text": text, "design_ref": ref},
        "level_note": note,
        "technique": technique,
    }

CHECKS = [
    chk("C01", "model_checking",
        "Per-detector layered G2 spaces (fields the detector governs, both operand orders, self-checks through gtxn/gtxns forms, "
        "shuffled atoms, conditions consumed by switch/match, loops that really iterate through a scratch counter incl. a subroutine entry "
        "as loop header, several gtxn/gtxns reads per block) plus all G1 raw layouts: E1 explores every execution over all groups (size 1-16, own index anywhere, "
        "region representatives of every field read); whenever some accepting run carries a detector's dangerous value, that "
        "detector (run through init_tealer_from_single_contract) must report at least one path. All nine detectors are evaluated on every program.",
        "Trusted: reference AVM. Unbound inputs count as carrying every value; application creation is not counted as update/delete.",
        "explicit-state exploration of the concrete AVM over the region quotient of all inputs; existence of a dangerous accepting state implies a reported trace",
        "DESIGN.md 3/C01"),
    chk("C02", "model_checking",
        "Skeleton-heavy G2 programs (free conditions, 0-3 subroutines, shared/nested/recursive calls, loops), all G1 raw layouts (incl. switch/match "
        "naming one label twice) "
        "and detector spaces: every path reported by each of the nine detectors is an implementation trace that is replayed on "
        "the reference call-stack automaton (entry start, edges, callsub -> callee entry, retsub -> return point of its own call "
        "site, terminating last block, no block twice per activation), checked to contain no block whose context excludes the "
        "dangerous value (predicates rewritten from the property text), to be unique, and to be rendered faithfully in short "
        "notation and JSON (line numbers and text taken from the source by an independent tokenizer).",
        "Trusted: reference graph, call-stack automaton, tokenizer. Completeness of the path set is not demanded (C01 demands >= 1).",
        "trace validation: every implementation trace (reported path) replayed against a reference pushdown automaton over an exhaustively enumerated program space",
        "DESIGN.md 3/C02"),
    chk("C03", "model_checking",
        "Direct-check programs of the per-detector G2 spaces: O2 explores the abstract per-value transition system (per field "
        "independently), derives per block the exactly admitted values, and searches the matched call/return graph for a walk "
        "from the entry to a terminating block through blocks that admit the dangerous value; when none exists the detector "
        "must report no path.",
        "Trusted: O2 evaluator. Two-field detectors: fields independent per block; multi-context blocks use context-insensitive sets.",
        "explicit-state exploration of an abstract per-value reachability system; emptiness of the unvalidated-walk language implies an empty report",
        "DESIGN.md 3/C03"),
    chk("C04", "model_checking",
        "Every G1 program (all raw instruction lists up to the tier's line bound, incl. dead code, back edges, "
        "plus G1D: every one/two-instruction unreachable segment between live code, and G1S: every control-flow shape of a subroutine body of <= 5/7 tokens; "
        "branch/call last, branch to next line) is parsed; E1 explores every execution of the reference AVM over the "
        "region quotient of its inputs and each concrete transition is checked to be an edge of tealer's graph (parse "
        "level and function level); block partition, single entry/exit, mirrored next/prev, no block outside the graph "
        "and bz/bnz successor order are checked against an independent reference graph.",
        "Trusted: reference AVM mc/machine.py, reference graph mc/refcfg.py, tokenizer mc/asm.py. Bounded program size.",
        "explicit-state exploration of the reference AVM per program (all inputs of the region quotient) + bounded-exhaustive program enumeration; every model transition validated against the implementation graph",
        "DESIGN.md 3/C04"),
    chk("C05", "model_checking",
        "Every G1 program with a callsub (up to the tier's line bound) plus every arrangement of 4-6 one-line subroutines "
        "(nested, shared, recursive, unreachable call sites, before/after main), the G1D dead-code and G1S subroutine-body-shape spaces, is parsed and analysed; subroutine names, "
        "block sets, exits, called subroutine and return point of every call site, caller/return-point tables at contract "
        "and function level, and the edges of the exported call-graph DOT file are compared with an independent reference graph.",
        "Trusted: reference graph mc/refcfg.py. Caller tables / call graph only where bodies are entered through callsub only.",
        "bounded-exhaustive enumeration of call-graph layouts; reference-graph reachability compared with the implementation on every program",
        "DESIGN.md 3/C05"),
    chk("C06", "model_checking",
        "Layered G2 spaces over GroupSize/GroupIndex atoms (6 operators, both operand orders): E1 explores every accepting "
        "execution over all 136 (size,index) pairs and checks that every block passed lists the pair (soundness); O2 explores "
        "an abstract transition system per value (16+16 values x program) and demands the listed sets equal the exact sets "
        "on direct-check programs (bracketed by the context-insensitive sets on blocks with several calling contexts), plus "
        "the index<size coupling on every block; comparisons of ANOTHER member's GroupIndex (gtxn i GroupIndex, gtxns GroupIndex) must not narrow "
        "the governed transaction's index set. Soundness-only layers: stack-shuffled atoms, unresolvable constants, conditions consumed by switch/match, and loops that really iterate (scratch counter as loop condition; also with a subroutine's entry label as loop header), so accepting runs take back edges.",
        "Trusted: reference AVM, O2 evaluator (mc/abstract.py). Bounded program size; exactness only on the direct-check fragment.",
        "explicit-state exploration of the concrete AVM (all size/index pairs) and of an abstract per-value reachability system; invariant = tealer's per-block sets",
        "DESIGN.md 3/C06"),
    chk("C07", "model_checking",
        "Layered G2 spaces over TypeEnum/OnCompletion/ApplicationID atoms: E1 explores every accepting execution over all "
        "(TypeEnum, OnCompletion, ApplicationID) valuations a real transaction can have and checks that Pay, Axfer, "
        "ApplUpdateApplication, ApplDeleteApplication are listed by every block the run passes whenever the governed transaction is of that kind. Soundness-only layers: stack-shuffled atoms, unresolvable constants, conditions consumed by switch/match, and loops that really iterate (scratch counter as loop condition; also with a subroutine's entry label as loop header), so accepting runs take back edges.",
        "Trusted: reference AVM. Only the four kinds the property names are demanded; creation transactions are not counted as update/delete.",
        "explicit-state exploration of the concrete AVM over all kind valuations; invariant = tealer's per-block kind sets",
        "DESIGN.md 3/C07"),
    chk("C08", "model_checking",
        "Layered G2 spaces over address atoms of the four fields (==, != x both operand orders x ZeroAddress, two literals, "
        "CreatorAddress; shuffled variants for soundness): E1 checks that every accepting run's non-zero address is admitted "
        "by every block it passes; O2 checks that a block is not 'any address' when no accepting abstract path through it admits "
        "a fresh address; the ANY/NO set algebra is checked exhaustively (6^2+6^3 cases) against plain set semantics. Soundness-only layers: stack-shuffled atoms, unresolvable constants, conditions consumed by switch/match, and loops that really iterate (scratch counter as loop condition; also with a subroutine's entry label as loop header), so accepting runs take back edges.",
        "Trusted: reference AVM, O2 evaluator. Address domain: zero, program literals, creator, one fresh address.",
        "explicit-state exploration (concrete AVM over address representatives; abstract per-value reachability) + exhaustive lattice-operation table",
        "DESIGN.md 3/C08"),
    chk("C09", "model_checking",
        "Layered G2 spaces over Fee atoms (6 operators x both orders x constants incl. 272000/272001): E1 checks fee <= reported "
        "bound on every block of every accepting run; O2 checks that a bound <= 272000 is credited only when no accepting abstract "
        "path admits a larger fee, that programs with a single Fee atom get exactly the implied bound, and - on every program, "
        "also with comparands the tool cannot evaluate - that no block on an accepting path that never reads Fee is credited with a bound. Soundness-only layers: stack-shuffled atoms, unresolvable constants, conditions consumed by switch/match, and loops that really iterate (scratch counter as loop condition; also with a subroutine's entry label as loop header), so accepting runs take back edges.",
        "Trusted: reference AVM, O2 evaluator. Fee representatives c-1,c,c+1,0,272000,272001,2^64-1.",
        "explicit-state exploration (concrete AVM over fee region representatives; abstract per-value reachability)",
        "DESIGN.md 3/C09"),
    chk("C10", "model_checking",
        "Layered G2 spaces over gtxn-form atoms (gtxn i f, int i; gtxns f, GroupIndex +/- k; gtxns f with both operand orders of +, "
        "GroupIndex; gtxns f) for address, fee and kind fields combined with GroupIndex/GroupSize atoms: E1 explores all groups "
        "(size 1-16, own index everywhere, member values by region representatives, lazily bound) and checks that "
        "absolute_context(i), gtxn_context(own index) and relative_context(k) of every block passed admit the respective member; "
        "members never read must be admitted completely; gtxn_context(i) must be empty for indices O2 proves impossible; an "
        "attribution table (one asserted atom per read form, incl. `k - GroupIndex` positions, which are no member's offset, and a comparand "
        "the tool cannot evaluate) checks that exactly the right context is constrained; loops that really iterate are part of the soundness space.",
        "Trusted: reference AVM, O2 index dimension. Reads of up to three members.",
        "explicit-state exploration of the concrete AVM over whole transaction groups; invariant = tealer's per-member sub-contexts",
        "DESIGN.md 3/C10"),
    chk("C11", "exploration",
        "Every straight-line opcode sequence up to length 3 over one representative per (pops,pushes) class of the v1-v8 table plus every "
        "stack-shuffling / multi-push opcode with small immediates (length 4 over the shuffle core in thorough), the complete per-opcode "
        "table, control opcodes as last instruction: a position machine driven by the independent table decides which instruction "
        "produced every operand (or 'before the block'), and construct_stack_ast must agree slot by slot, including the declared "
        "pop/push counts; an operand the tool reads as an integer literal must carry the value really pushed at that producer and position. All {int, txn, &&, ||, !} code sequences up to 7 instructions check And/Or flattening (leaves in order, "
        "has_unknown) against an independent symbolic evaluation. The consequence clause is decided semantically: programs whose only comparison has an "
        "operand that is NOT a governed field (another member's field through gtxn/gtxns, a look-alike field, the field +/- a constant, a position "
        "computed as k - GroupIndex) in both operand orders and under five consumers are explored by E1 over all groups, and every block passed "
        "(incl. the sub-contexts kept for other members) must still admit the run.",
        "Trusted: pops/pushes of mc/spec.py (single source, from the AVM specification); reference AVM for the attribution programs.",
        "bounded-exhaustive enumeration of instruction sequences against a reference position machine (no sampling)",
        "DESIGN.md 3/C11"),
    chk("C12", "model_checking",
        "G2 programs over a mixed alphabet and G1 raw layouts x every simple dispatch path (<= 4 main blocks) x orders of several "
        "functions built from the same contract: path [B0] must give a main graph isomorphic to the contract's (ids, text, lines, "
        "ordered edges, shared subroutine objects, no shared main objects); longer paths must replace exactly the off-path "
        "successors by one-instruction error blocks and drop unreachable blocks; E1 runs whose main-level block walk starts with "
        "the path must be admitted by the function's contexts (C06-C09 clauses); each function's snapshot (graph + all contexts "
        "incl. the 62 sub-contexts per block) must not depend on which other functions were built or in which order; the "
        "contract's own graph snapshot must be unchanged afterwards. 'Exactly that path's executions' is decided differentially: the function's contexts "
        "must equal those computed for the contract rewritten so that every departure from the path leads to `err` (block by block, incl. "
        "sub-contexts). The same functions are also built through a group configuration listing all of them (both listing orders) and must "
        "equal the ones built alone. Programs include hand-written dispatchers whose departures share an off-path target and loops that really iterate.",
        "Trusted: reference AVM for the context clause. Dispatch paths up to 4 blocks; up to 3 functions per order. Runs that come back to a path block and leave the path there are cut off by the prescribed error blocks and are not demanded.",
        "bounded-exhaustive enumeration of (program, dispatch path, build order) with explicit-state exploration of the concrete AVM filtered by the path automaton; differential snapshots across all build orders",
        "DESIGN.md 3/C12"),
    chk("C13", "model_checking",
        "Configurations of 1-3 transactions over a pool of logic-sig and application contracts (own-field checks, Gtxn[i] checks, "
        "Gtxn[GroupIndex +/- k] checks, index-guarded self checks, partial checks, a bound on the member's own fee that the tool cannot evaluate) x transaction types x absolute indices x "
        "relative offsets in both directions, written as YAML and loaded through read_config_from_file / init_tealer_from_config: "
        "for each configuration every placement and every member valuation approved by all configured contracts is explored "
        "(product of E1 explorations sharing the group valuation); an eligible transaction that can carry a dangerous value in "
        "an approved group must be reported; a transaction whose own contract, or a member naming it by the configured absolute "
        "index / offset, excludes the value on every accepting abstract path (O2) must not be reported.",
        "Trusted: reference AVM, O2. Positions 0-3; 'cleared' only for relations stated in the configuration and single-field detectors.",
        "explicit-state exploration of the product of the configured contracts' concrete executions over a shared transaction group, per configuration of an exhaustively enumerated configuration space",
        "DESIGN.md 3/C13"),
    chk("C14", "model_checking",
        "On the real code, with every history case run in a child forked from a pristine worker: all sequences of up to 3 (thorough: 4) "
        "contracts from a pool built to collide on shared state (universal-set lists, lru caches, class-level key lists, shared "
        "subroutine blocks) analysed in one process without any cache clearing by the harness; all permutations of every 3-subset of "
        "detectors containing group-size-check, all ordered pairs, every detector twice - by direct detect() calls and through "
        "Tealer.register_detector/run_detectors (the command line's route); all permutations (<= 5 elements) / rotations "
        "and reversals of the initial forward and backward worklists and of called_subroutines (installed by wrapping, no source change); "
        "PYTHONHASHSEED 0-3 and VERIF_SEED in fresh interpreters. Oracle: graph, all contexts (incl. sub-contexts), parse output, "
        "ordered paths and JSON bytes of every detector equal those of the contract analysed alone in a fresh interpreter; contexts "
        "unchanged after each detector.",
        "Hash seeds are a sample (declared); the iteration orders a seed can induce are covered exhaustively by the permutations.",
        "exhaustive enumeration of operation histories, detector orders and worklist/iteration-order schedules on the real implementation with a differential oracle",
        "DESIGN.md 3/C14"),
    chk("C15", "exploration",
        "G2 base programs over a mixed alphabet (incl. gtxns reads by constant index and by GroupIndex offset) x ten text rewrites (rename labels, "
        "comments/blank lines/indentation, hex (lower- and upper-case digits) and octal integers, named<->numeric constants next to TypeEnum/OnCompletion, int->pushint, int->entry-block intcblock + intc/intc_k, "
        "stack-neutral padding at statement boundaries), every ordered pair of them, every placement and order of the subroutine bodies "
        "and its composition with each text rewrite: contexts (per instruction line, incl. selected sub-contexts) and the path sets of "
        "all nine detectors must be equal modulo the rewrite's line map; each rewrite is itself validated as behaviour-preserving by "
        "the reference AVM.",
        "Trusted: rewrites in mc/gen/rewrites.py (each validated with E1 on every program it is applied to).",
        "metamorphic relation checked over an exhaustively enumerated set of (program, rewrite composition) pairs",
        "DESIGN.md 3/C15"),
    chk("C16", "exploration",
        "Every opcode of the independent v1-v8 table x every field of its group x immediate spellings (uint64 in decimal/hex/octal up to "
        "2^64-1, named constants, 19 byte-string spellings: hex, base64/base32 in four syntaxes, quoted strings with spaces, //, escapes; "
        "labels named like opcodes; lists) x 13 whitespace/comment layouts (incl. a trailing carriage return) (incl. comments that end in a colon or contain code): parse_line must yield a supported instruction whose printed "
        "form, read by an independent tokenizer/decoder, denotes the same opcode and immediates (integers by value, byte strings by "
        "decoded value), parses back to the same class and text, and does not depend on layout; comments and the source line are kept; "
        "unknown opcodes (incl. known opcodes with extra characters) stay unsupported verbatim; parse_teal records 1-based line numbers. Every ordered "
        "pair of base lines is parsed back to back in one process (a parse must not depend on earlier parses; one text valid in both base32 and "
        "base64), and every base line is parsed inside a program through parse_teal (all passes) and must still denote itself.",
        "Trusted: immediate grammar of mc/spec.py, tokenizer mc/asm.py, byte-string decoders in mc/checks/c16.py. `method` round trip only.",
        "exhaustive enumeration of a finite representative line grammar against an independent tokenizer/decoder and a round-trip relation",
        "DESIGN.md 3/C16"),
    chk("C17", "model_checking",
        "G1 raw layouts (dead code that branches or calls, labels at the end, empty subroutines, back-to-back labels, branch/call as last "
        "instruction, retsub in main), skeleton-heavy G2 programs (recursion, loops) and programs with unknown gtxn indices, run-time "
        "comparands and out-of-table enum constants, also under other pragma versions and without pragma x seven subcommands "
        "(detect text / JSON, five printers; option variants on every 7th program): tealer.__main__.main() is driven in-process with "
        "patched argv and must return or exit 0 without traceback; a fixed slice is re-run through real `python -m tealer` subprocesses "
        "and must agree.",
        "The in-process call is taken as the CLI (a slice is compared with real subprocesses). Filter: bodies entered only through callsub.",
        "bounded-exhaustive enumeration of (program layout x subcommand) executions of the real entry point; oracle = no internal error",
        "DESIGN.md 3/C17"),
    chk("C18", "model_checking",
        "G1 raw layouts and detector-space G2 programs: the files written by the cfg, subroutine-cfg and transaction-context printers and "
        "by generate_output for every reported path of the nine detectors, and the JSON envelope produced by the CLI's handle_output, "
        "are read back by small independent DOT/JSON readers: nodes = retained blocks with their 'line. text' rows, edges = the global "
        "graph of the reference (intra edges, callsub -> entry, retsub -> return point, no callsub -> return-point edge), one call box "
        "per call site, RED nodes = exactly the path's blocks, GroupIndex/GroupSize annotations decode to the computed sets, count = "
        "listed paths, success <=> no error, and filter_paths removes exactly the paths whose short notation re.search-matches, for "
        "patterns derived from every reported path; operation sequences on one result object (to_json / filter / to_json / second filter, up to 4 steps) "
        "must render exactly the paths left at that moment; the number-list abbreviation of the transaction-context printer is decoded back on all 2^17 subsets of 0..16.",
        "Trusted: reference graph and the readers in mc/checks/c18.py. The call-graph export is covered by C05.",
        "output conformance over an exhaustively enumerated program space: every exported artefact parsed back and compared with the reference model",
        "DESIGN.md 3/C18"),
    chk("C19", "exploration",
        "Every opcode x field of the independent v1-v8 table as a one-instruction program under #pragma version 1-8 and without pragma: the "
        "'not supported' diagnostics (instruction and field, with the introduction version they print) must appear exactly when the table "
        "version exceeds the declared one; ordered pairs of mode/version class representatives check Stateful/Stateless/Any "
        "classification, the mixture diagnostic and the contract type; blocks of 1-3 instructions check the displayed 'cost = n' "
        "comment against the sum of table costs for the declared version (labels and #pragma cost nothing).",
        "Trusted: mc/spec.py (names, modes, versions >= 3 cross-checked with PyTeal at start; costs and v1/v2 versions single source).",
        "exhaustive enumeration of the opcode x field x version table and of class-representative pairs against an independent specification table",
        "DESIGN.md 3/C19"),
    chk("C20", "model_checking",
        "All G1 programs (joins, loops, dead code, calls) and G1L ladder programs (5 labelled segments, every forward jump pattern; back edges in thorough) x every label, `*` and a missing label x every window of 1-4 source lines and "
        "every one-line alteration of it (present, absent, overlapping, block-spanning, unreachable): match_regex must return exactly "
        "the occurrences reachable from the label on the reference instruction graph (each listed in order, along single-successor "
        "chains), and the covered set must lie within, and contain all unmatched instructions of, the paths from the label to a match.",
        "Trusted: reference instruction graph mc/refcfg.py. Patterns with a non-final `b` are not used.",
        "bounded-exhaustive enumeration of (program, label, pattern) with explicit forward/backward reachability on a reference instruction graph",
        "DESIGN.md 3/C20"),
]

_PENDING = "check not built yet"
NOT_APPLICABLE = [
    {"property_id": f"C{i:02d}", "reason": _PENDING}
    for i in range(1, 21) if f"C{i:02d}" not in {c["property_id"] for c in CHECKS}
]
