"""Table of registered checks (source of MANIFEST.json; run tools_manifest.py after editing)."""

def chk(pid, level, text, note, technique, ref):
    return {
        "property_id": pid,
        "quick_cmd": f"./check {pid} --tier quick",
        "thorough_cmd": f"./check {pid} --tier thorough",
        "evidence_file": f"/verif/evidence/{pid}.json",
        "replay_cmd_template": f"./check {pid} --replay {{path}}",
        "engine": "E1/O2 explicit-state explorers + bounded-exhaustive program enumerators",
        "level_claimed": {"category": level, "text": text, "design_ref": ref},
        "level_note": note,
        "technique": technique,
    }

CHECKS = [
    chk("C04", "model_checking",
        "Every G1 program (all raw instruction lists up to the tier's line bound, incl. dead code, back edges, "
        "branch/call last, branch to next line) is parsed; E1 explores every execution of the reference AVM over the "
        "region quotient of its inputs and each concrete transition is checked to be an edge of tealer's graph (parse "
        "level and function level); block partition, single entry/exit, mirrored next/prev, no block outside the graph "
        "and bz/bnz successor order are checked against an independent reference graph.",
        "Trusted: reference AVM mc/machine.py, reference graph mc/refcfg.py, tokenizer mc/asm.py. Bounded program size.",
        "explicit-state exploration of the reference AVM per program (all inputs of the region quotient) + bounded-exhaustive program enumeration; every model transition validated against the implementation graph",
        "DESIGN.md 3/C04"),
]

_PENDING = "check not built yet in this session (work in progress; see DESIGN.md section 3 for the planned check)"
NOT_APPLICABLE = [
    {"property_id": f"C{i:02d}", "reason": _PENDING}
    for i in range(1, 21) if f"C{i:02d}" not in {c["property_id"] for c in CHECKS}
]
